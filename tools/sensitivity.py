#!/usr/bin/env python3
"""Sensitivity self-test: apply each mutant patch to a scratch copy of /repo/src and expect the check to fail.

usage: tools/sensitivity.py [--tier quick] [--keep-going] <PID>|all [mutant-name-substring]
Mutants live in tools/mutants/<PID>/*.diff (git-diff format relative to the repo root) and
/verif/seeded/<id>/patch.diff (meta.json names the property).  Property-preserving edits live in
tools/preserving/<PID>/*.diff and must leave the check at exit 0.
Scratch copies are made under $VERIF_SCRATCH or /dev/shm and removed afterwards.
"""
import glob, json, os, shutil, subprocess, sys, tempfile, time

VERIF = os.path.dirname(os.path.dirname(os.path.abspath(__file__)))


def scratch_copy():
    base = os.environ.get("VERIF_SCRATCH") or ("/dev/shm" if os.path.isdir("/dev/shm") else tempfile.gettempdir())
    d = tempfile.mkdtemp(prefix="lian-mut-", dir=base)
    subprocess.check_call(["rsync", "-a", "--exclude", "__pycache__", "/repo/src/", os.path.join(d, "src/")])
    for name in ("lib", "default_settings", "tests", "scripts", "docs"):
        if os.path.exists(os.path.join("/repo", name)):
            os.symlink(os.path.join("/repo", name), os.path.join(d, name))
    return d


def run_one(pid, patch, tier, expect_fail, extra_args=()):
    d = scratch_copy()
    try:
        r = subprocess.run(["patch", "-p1", "-s", "-d", d, "-i", patch], capture_output=True, text=True)
        if r.returncode != 0:
            return "PATCH-FAILED", r.stdout + r.stderr, 0.0
        env = dict(os.environ, VERIF_REPO_SRC=os.path.join(d, "src"), VERIF_NO_SELFTEST="1",
                   VERIF_EVIDENCE_DIR=os.path.join(d, "evidence"))
        t0 = time.time()
        r = subprocess.run([os.path.join(VERIF, "check"), pid, "--tier", tier, *extra_args], env=env,
                           capture_output=True, text=True)
        dt = time.time() - t0
        out = r.stdout + r.stderr
        viol = [l for l in out.splitlines() if l.startswith("VIOLATION")]
        if expect_fail:
            verdict = "KILLED" if (r.returncode == 1 and viol) else ("HARNESS-ERR" if r.returncode == 2 else "MISSED")
        else:
            verdict = "QUIET" if (r.returncode == 0 and not viol) else ("HARNESS-ERR" if r.returncode == 2 else "FALSE-ALARM")
        return verdict, out, dt
    finally:
        shutil.rmtree(d, ignore_errors=True)


def main():
    args = [a for a in sys.argv[1:] if not a.startswith("--")]
    tier = "quick"
    if "--tier" in sys.argv:
        tier = sys.argv[sys.argv.index("--tier") + 1]
        args = [a for a in args if a != tier]
    verbose = "--verbose" in sys.argv
    which = args[0].upper() if args else "ALL"
    sub = args[1] if len(args) > 1 else ""
    jobs = []
    for p in sorted(glob.glob(os.path.join(VERIF, "tools/mutants/*/*.diff"))):
        jobs.append((os.path.basename(os.path.dirname(p)), p, True))
    for p in sorted(glob.glob(os.path.join(VERIF, "seeded/*/patch.diff"))):
        meta = json.load(open(os.path.join(os.path.dirname(p), "meta.json")))
        jobs.append((meta["property"], p, True))
    for p in sorted(glob.glob(os.path.join(VERIF, "tools/preserving/*/*.diff"))):
        jobs.append((os.path.basename(os.path.dirname(p)), p, False))
    bad = 0
    for pid, patch, expect_fail in jobs:
        if which != "ALL" and pid != which:
            continue
        if sub and sub not in patch:
            continue
        verdict, out, dt = run_one(pid, patch, tier, expect_fail)
        rel = os.path.relpath(patch, VERIF)
        print(f"{verdict:12s} {pid} {rel} ({dt:.0f}s)", flush=True)
        if verdict not in ("KILLED", "QUIET"):
            bad += 1
        if verbose or verdict not in ("KILLED", "QUIET"):
            tail = [l for l in out.splitlines() if l.startswith(("VIOLATION", "  signature", "  class", "HARNESS", "KNOWN"))][:12]
            print("\n".join("    " + l for l in (tail or out.splitlines()[-15:])))
    sys.exit(1 if bad else 0)


if __name__ == "__main__":
    main()
