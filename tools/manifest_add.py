#!/usr/bin/env python3
"""tools/manifest_add.py <ID> <json-file-with-check-entry>: add or replace a check entry; keeps not_applicable consistent."""
import json, sys
m = json.load(open("/verif/MANIFEST.json"))
entry = json.load(open(sys.argv[2]))
pid = sys.argv[1]
assert entry["property_id"] == pid
m["checks"] = [c for c in m["checks"] if c["property_id"] != pid] + [entry]
m["checks"].sort(key=lambda c: c["property_id"])
m["not_applicable"] = [n for n in m.get("not_applicable", []) if n["property_id"] != pid]
json.dump(m, open("/verif/MANIFEST.json", "w"), indent=1)
