#!/bin/bash
# validate MANIFEST.json and every evidence file against the schemas
python3-vt - <<'PY'
import json, jsonschema, glob, sys
jsonschema.validate(json.load(open('/verif/MANIFEST.json')), json.load(open('/root/.vp/MANIFEST.schema.json')))
print('MANIFEST ok')
es = json.load(open('/root/.vp/EVIDENCE.schema.json'))
for f in sorted(glob.glob('/verif/evidence/*.json')):
    jsonschema.validate(json.load(open(f)), es); print('evidence ok', f)
m = json.load(open('/verif/MANIFEST.json'))
ids = [c['property_id'] for c in m['checks']] + [n['property_id'] for n in m['not_applicable']]
missing = sorted(set('C%02d' % i for i in range(1, 21)) - set(ids)); print('unaccounted (in progress):', missing)

PY
