#!/usr/bin/env python3
"""tools/intake_seeded.py <worktree> <PROP> <src-letter> <dst-letter> "<needs>"
Verify a sub-agent's change in a fresh scratch worktree at /repo HEAD (demo passes clean, fails patched) and store it under
/verif/seeded/<PROP>-<dst-letter>/ with meta.json."""
import json, os, shutil, subprocess, sys
wt, prop, src_letter, dst_letter, needs = sys.argv[1:6]
src = os.path.join(wt, "_out", src_letter)
chk = "/tmp/seedcheck"
subprocess.run(["git", "-C", "/repo", "worktree", "remove", "--force", chk], capture_output=True)
subprocess.check_call(["git", "-C", "/repo", "worktree", "add", "--detach", chk, "HEAD", "-q"])
try:
    env = dict(os.environ, OPENBLAS_NUM_THREADS="1")
    r = subprocess.run(["git", "-C", chk, "apply", "--check", os.path.join(src, "patch.diff")], capture_output=True, text=True)
    if r.returncode:
        print("PATCH DOES NOT APPLY", r.stderr[:300]); sys.exit(1)
    c = subprocess.run(["/venv/bin/python", os.path.join(src, "demo.py"), chk + "/src"], env=env, capture_output=True, text=True, timeout=900).returncode
    subprocess.check_call(["git", "-C", chk, "apply", os.path.join(src, "patch.diff")])
    m = subprocess.run(["/venv/bin/python", os.path.join(src, "demo.py"), chk + "/src"], env=env, capture_output=True, text=True, timeout=900).returncode
    print(f"{prop}-{dst_letter}: clean_rc={c} patched_rc={m}")
    if c != 0 or m == 0:
        print("NOT CONFIRMED"); sys.exit(1)
    head = subprocess.check_output(["git", "-C", "/repo", "log", "--format=%h", "-1"], text=True).strip()
    dst = f"/verif/seeded/{prop}-{dst_letter}"
    os.makedirs(dst, exist_ok=True)
    for f in ("patch.diff", "demo.py", "README.md"):
        shutil.copy(os.path.join(src, f), os.path.join(dst, f))
    json.dump({"property": prop, "id": f"{prop}-{dst_letter}",
               "origin": "independent sub-agent given only the property text, a list of ideas already taken, and its own scratch worktree of /repo (nothing from /verif)",
               "needs_to_manifest": needs,
               "confirmed": {"what_i_ran": f"scratch worktree /tmp/seedcheck at /repo HEAD ({head}): git apply --check; demo.py <src> clean -> exit 0; git apply patch.diff; demo.py <src> -> exit {m}; worktree removed",
                             "demo_clean_rc": c, "demo_patched_rc": m,
                             "test_suite": "pinned pytest suite unchanged (18 failed / 291 passed / 216 skipped / 17 errors, same ids as on the clean tree) - run by the sub-agent"}},
              open(os.path.join(dst, "meta.json"), "w"), indent=1)
finally:
    subprocess.run(["git", "-C", "/repo", "worktree", "remove", "--force", chk], capture_output=True)
