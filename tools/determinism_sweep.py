#!/usr/bin/env python3
"""tools/determinism_sweep.py [--seeds 1,2,3,4] [--n 200] [PID ...]

Large-sample determinism proof of the simulator itself (not of lian): for every engine and batch seed the runs lo..hi are
executed twice in fresh interpreters - once under PYTHONHASHSEED=0, once under another string-hash seed - in REVERSE
order each (so that state leaking from one run into the next shows), and the per-run event-log digests are compared.
Every (engine, seed, half) pair is its own process; up to 16 run at a time.  Exit 0 iff no digest differs.
"""
import json
import os
import subprocess
import sys
from concurrent.futures import ThreadPoolExecutor

VERIF = os.path.dirname(os.path.dirname(os.path.abspath(__file__)))
sys.path.insert(0, VERIF)
from sim import core  # noqa: E402

N = {"C14": 3, "C15": 160, "C16": 300, "C17": 300, "C18": 40, "C19": 300}


def digests(pid, seed, lo, hi, hashseed):
    env = core.pinned_env({"LIAN_SIM_PINNED": "1"}, hashseed=str(hashseed))
    env["LIAN_SIM_PINNED"] = "1"
    r = subprocess.run([core.PYTHON, "-B", os.path.join(VERIF, "sim", "main.py"), pid, "--seed", str(seed), "--digests", f"{lo}:{hi}"],
                       env=env, capture_output=True, text=True, timeout=3600)
    try:
        return json.loads(r.stdout.strip().splitlines()[-1])
    except Exception:  # noqa
        return {"ERR": (r.stderr or r.stdout)[-300:]}


def main():
    args = sys.argv[1:]
    seeds = [1, 2, 3, 4]
    scale = 1.0
    pids = []
    while args:
        a = args.pop(0)
        if a == "--seeds":
            seeds = [int(x) for x in args.pop(0).split(",")]
        elif a == "--scale":
            scale = float(args.pop(0))
        else:
            pids.append(a.upper())
    pids = pids or ["C15", "C16", "C17", "C18", "C19", "C14"]
    jobs = []
    for pid in pids:
        n = max(1, int(N[pid] * scale))
        for s in seeds:
            jobs.append((pid, s, 0, n, 0))
            jobs.append((pid, s, 0, n, 987654321))
    with ThreadPoolExecutor(max_workers=16) as ex:
        results = list(ex.map(lambda j: digests(*j), jobs))
    bad = 0
    total = 0
    for i in range(0, len(jobs), 2):
        pid, s, lo, hi, _ = jobs[i]
        a, b = results[i], results[i + 1]
        diff = sorted(k for k in set(a) | set(b) if a.get(k) != b.get(k))
        errs = [k for k in a if a[k] == "ERR"] + [k for k in b if b[k] == "ERR"]
        total += len(a)
        status = "same" if not diff and "ERR" not in a and "ERR" not in b and not errs else f"DIFFERENT at runs {diff[:8]} errs={errs[:4]}"
        if status != "same":
            bad += 1
            if "ERR" in a or "ERR" in b:
                status += " " + str(a.get("ERR") or b.get("ERR"))[:200]
        print(f"{pid} seed={s} runs={lo}:{hi} hashseed 0 vs 987654321: {status}")
    print(f"determinism sweep: {total} runs compared twice, {bad} (engine, seed) pairs differ")
    return 1 if bad else 0


if __name__ == "__main__":
    sys.exit(main())
