#!/usr/bin/env python3
"""tools/mkmutant.py <PID> <name> <repo-relative-file> <<< JSON [[old,new],...]  (or --preserving)
Create a mutant patch by exact string replacement (each old must occur exactly once unless count given)."""
import difflib, json, os, sys
pres = "--preserving" in sys.argv
argv = [a for a in sys.argv[1:] if a != "--preserving"]
pid, name, rel = argv[:3]
edits = json.load(sys.stdin)
src = open(os.path.join("/repo", rel), encoding="utf-8").read()
new = src
for e in edits:
    old, rep = e[0], e[1]
    cnt = e[2] if len(e) > 2 else 1
    assert new.count(old) == cnt, f"{old!r} occurs {new.count(old)} times, expected {cnt}"
    new = new.replace(old, rep)
diff = "".join(difflib.unified_diff(src.splitlines(True), new.splitlines(True), "a/" + rel, "b/" + rel))
d = os.path.join("/verif/tools", "preserving" if pres else "mutants", pid)
os.makedirs(d, exist_ok=True)
open(os.path.join(d, name + ".diff"), "w", encoding="utf-8").write(diff)
print("wrote", os.path.join(d, name + ".diff"), len(diff.splitlines()), "lines")
