#!/usr/bin/env python3
import glob, json, sys
pid = sys.argv[1]
full = len(sys.argv) > 2
for f in sorted(glob.glob(f"/verif/replays/{pid}-*.json")):
    t = json.load(open(f))
    v = t.get("violation", {})
    print(f"{t.get('signature')}")
    if full:
        print("   knobs:", {k: v2 for k, v2 in t["knobs"].items() if k in ("icap","bcap","max_rows","population")})
        print("   detail:", json.dumps(v.get("detail"))[:700])
