#!/bin/bash
# Offline setup: nothing to build (pure Python machinery); verify the pieces the checks rely on.
set -e
cd "$(dirname "$0")"
test -x /venv/bin/python
PYTHONPATH=/repo/src OPENBLAS_NUM_THREADS=1 /venv/bin/python - <<'PY'
import builtins
builtins.profile = lambda f: f
import pandas, pyarrow, numpy, networkx
import lian.util.data_model, lian.util.loader, lian.common_structs, lian.events.event_manager
print("setup ok: lian importable from /repo/src; pandas", pandas.__version__, "pyarrow", pyarrow.__version__)
PY
mkdir -p evidence replays
