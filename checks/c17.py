"""C17 - event handlers run in registration order under the documented blocking rules.

World: a real EventManager (production construction incl. the default registration table, a bare
one with the default table disabled, and one whose handlers arrive through a real plugin file given in
options.event_handlers), probe handlers owned by the simulator, and a seeded history of
register / register_list / notify operations.  Oracle: a fold over the registration list.
The environment is degenerate (no I/O, clock or concurrency): only the history is explored.
"""
import contextlib
import io
import os
from types import SimpleNamespace

from sim import invivo
from sim.core import canon_json, digest_hex, h64, scratch_root

PID = "C17"
RULE = ("seeded histories: 0..6 register/register_list calls per event kind (language sets given as str, list, set, "
        "tuple or defaulted; with/without the any-language marker; language names that are substrings of each other) "
        "interleaved with notify calls whose handlers return scripted flag combinations 0..15 and may or may not replace "
        "out_data.  Non-trivial = at least one handler ran or was filtered; distinct = distinct (knobs, op list).")
STATE_MEASURE = ("states = distinct notification classes (number of registered handlers, language-match vector, per matched "
                 "handler unprocessed/processed/blocking up to the first block); transitions = distinct (class, combined return value)")
REAL = ["lian.events.event_manager.EventManager (register, register_list, notify, plugin loading)",
        "lian.events.event_return flag algebra", "lian.events.handler_template.EventData/EventHandler",
        "DefaultEventHandlerManager default table (population 'prod')"]
STUBS = ["handlers are simulator-owned probes (they log what they see and return scripted flags)"]
ASSUMPTIONS = [
    "handlers returning None are not generated (the property does not say whether None counts as processed)",
    "when an UNPROCESSED handler replaced out_data and a later processed handler did not, both readings of 'data as left by the previous successful handler' are accepted",
    "combined return: must contain the union of returned flags and may additionally contain SUCCESS when some handler returned non-zero",
    "in population 'prod' event kinds whose DEFAULT handlers are registered for every language are not notified with probe data (they would run lian code on it); they are covered by population 'bare' and by the in-vivo monitor of C15",
]
PROBES = ["invivo_notifications", "invivo_handlers_invoked", "invivo_multi_handler_notifications", "unprocessed_set_out", "lang_filtered", "any_lang_match", "blocked", "data_chained", "unprocessed_kept_data", "unknown_event", "handler_bound_method", "handler_partial", "handler_callable_object", "handler_owner_referenced_by_registration_only", "options_carry_language_list", "rich_data", "global_debug_flag", "registered_by_declared_name", "registered_for_unsupported_declared_kind", "raised_by_declared_name",
          "flags_multi", "str_lang", "set_lang", "substring_lang", "register_list", "plugin_loaded", "prod_default_table",
          "no_handler_matched", "listed_handlers", "debug_mode", "reentrant_notify", "registered_during_dispatch", "eventdata_reused", "same_handler_twice", "shared_lang_list"]
# the same check again, smaller, in interpreters started with assertions stripped (python -O / PYTHONOPTIMIZE=1)
ENV_VARIANTS = [{"name": "python-O", "env": {"PYTHONOPTIMIZE": "1"}, "runs": {'quick': 3000, 'thorough': 30000}}]
TIERS = {
    "quick": {"runs": 30000, "budget_s": 180, "chunk": 500, "selftest": 200, "per_run_timeout": 300},
    "thorough": {"runs": 0, "budget_s": 900, "chunk": 2000, "selftest": 1000, "per_run_timeout": 300},
}

LANGS = ["sim", "simA", "simAB", "zz"]
ANY = "%"
UNKNOWN_EVENTS = [0, 6, 7, 8, 9, 20, 21, 22, 49, 999, -1]

_em_mod = None
_EventData = None
_EventHandler = None
_EVENT_KINDS = None
_DECLARED = {}
_DECLARED_NAMES = []
_plugin_path = None
_PLUGIN_SPEC = None   # set right before constructing a 'plugin' manager


def setup_worker():
    global _em_mod, _EventData, _EventHandler, _EVENT_KINDS, _plugin_path
    invivo.worker_setup()
    import lian.events.event_manager as em
    from lian.events.handler_template import EventData, EventHandler
    _em_mod, _EventData, _EventHandler = em, EventData, EventHandler
    # event kinds known to a manager: read from a throw-away production instance (public table)
    with contextlib.redirect_stdout(io.StringIO()):
        probe = em.EventManager(SimpleNamespace(event_handlers=[], debug=False))
    _EVENT_KINDS = sorted(probe.event_handlers.keys())
    from lian.config.constants import EVENT_KIND as _EK
    global _DECLARED, _DECLARED_NAMES
    _DECLARED = {str(n_): v_ for n_, v_ in getattr(_EK, "_members", {}).items() if isinstance(v_, int)}
    _DECLARED_NAMES = sorted(_DECLARED)
    d = os.path.join(scratch_root(), f"c17-plugin-{os.getpid()}")
    os.makedirs(d, exist_ok=True)
    _plugin_path = os.path.join(d, "sim_plugin.py")
    with open(_plugin_path, "w") as f:
        f.write(
            "from lian.events.handler_template import EventHandlerManager\n"
            "from checks import c17\n"
            "class SimPlugin(EventHandlerManager):\n"
            "    def __init__(self, event_manager):\n"
            "        super().__init__(event_manager)\n"
            "        c17.plugin_register(event_manager)\n")


def plugin_register(em):
    spec = _PLUGIN_SPEC
    if spec is None:
        return
    spec["loaded"] = True
    for op in spec["ops"]:
        _do_register(em, op, spec["handlers"])


# ----------------------------------------------------------------------------- generator

P_INVIVO = {"quick": 0.002, "thorough": 0.003}


def gen_knobs(rng, tier):
    if rng.random() < float(os.environ.get("VERIF_P_INVIVO") or P_INVIVO.get(tier, 0.001)):
        return {"population": "invivo"}
    return {
        "population": rng.choice(["prod", "bare", "bare", "plugin"]),
        "n_events": rng.choice([1, 1, 2, 3]),
        "max_handlers": rng.choice([1, 2, 3, 4, 4, 6]),
        "n_notify": rng.randint(1, 8),
        "p_any": rng.choice([0.0, 0.15, 0.4]),
        "p_block": rng.choice([0.05, 0.2, 0.5]),
        "p_unprocessed": rng.choice([0.1, 0.3, 0.6]),
        "p_late_register": rng.choice([0.0, 0.3]),
        "p_unknown_event": rng.choice([0.0, 0.1]),
        "event_picks": [rng.randrange(64) for _ in range(3)],
        "p_reentrant": rng.choice([0.0, 0.0, 0.3]),
        "debug": rng.random() < 0.2,          # production --debug: the manager prints what it dispatches
        "p_list": rng.choice([0.0, 0.0, 0.2]),
        # events addressed by their DECLARED NAME (EVENT_KIND.<name>), supported by the manager or not; and a scripted sweep
        # handlers that are not plain functions (bound methods, functools.partial objects, objects with __call__), the data
        # they leave behind being dicts / lists as well as strings, and --debug with the global debug flag on
        "exotic_handlers": rng.random() < 0.3,
        "rich_data": rng.random() < 0.3,
        "debug_flag": rng.random() < 0.5,
        # what else the production options object carries: the -l language list (list or comma string), and other attributes
        "options_lang": rng.choice([None, None, ["python"], "python,javascript", [], ["java", "go"]]),
        "named_events": rng.random() < 0.12,
        "name_sweep": rng.random() < 0.012,
    }


def _gen_langs(rng, k):
    kind = rng.choice(["str", "list", "list", "set", "tuple", "default"])
    if kind == "default":
        return {"kind": "default", "v": []}
    if kind == "str":
        v = [ANY] if rng.random() < k["p_any"] else [rng.choice(LANGS)]
        return {"kind": "str", "v": v}
    n = rng.choice([1, 1, 2, 3])
    v = sorted(set(rng.choice(LANGS) for _ in range(n)))
    if rng.random() < k["p_any"]:
        v.append(ANY)
    if rng.random() < 0.05:
        v = []
    return {"kind": kind, "v": v}


def _gen_flags(rng, k):
    r = rng.random()
    if r < k["p_unprocessed"]:
        return 0
    f = rng.choice([1, 1, 1, 4, 8, 5, 9, 12, 13])
    if rng.random() < k["p_block"]:
        f |= 2
        if rng.random() < 0.3:
            f &= ~1
    return f


def generate(rng, k):
    if k["population"] == "invivo":
        return invivo.gen_invivo_ops(rng, p_history=0.0)
    ops = []
    if k.get("name_sweep"):
        # one handler registered for one declared kind (any language), then EVERY declared kind is raised once: the handler
        # runs for its own kind only (and not at all when the manager does not support that kind)
        i = rng.randrange(256)
        ops.append({"op": "register", "event": f"N{i}", "h": 0, "langs": {"kind": "list", "v": [ANY]}})
        for j in range(72):
            ops.append({"op": "notify", "event": f"N{j}", "lang": "sim", "returns": {"0": 1}, "sets_out": {"0": False}})
        return ops
    events = [f"E{p}" for p in k["event_picks"][:k["n_events"]]]   # resolved to real kinds by the executor
    if k.get("named_events"):
        events = [f"N{rng.randrange(256)}" for _ in events]
    hid = 0
    regs = {e: [] for e in events}
    for e in events:
        n = rng.randint(0, k["max_handlers"])
        pending = []
        for _ in range(n):
            if regs[e] and rng.random() < 0.12:
                # the SAME handler object registered once more for this event (a plugin looping over its languages)
                item = {"event": e, "h": rng.choice(regs[e]), "langs": _gen_langs(rng, k)}
                regs[e].append(item["h"])
            else:
                item = {"event": e, "h": hid, "langs": _gen_langs(rng, k)}
                regs[e].append(hid)
                hid += 1
            if pending and rng.random() < 0.12 and pending[-1]["langs"]["kind"] == "list":
                # ... or several registrations handed one and the same language list object
                item["langs"] = dict(pending[-1]["langs"], share=pending[-1]["langs"].get("share") or f"L{len(ops)}_{len(pending)}")
                pending[-1]["langs"] = dict(pending[-1]["langs"], share=item["langs"]["share"])
            pending.append(item)
        # some via register(), some via one register_list()
        i = 0
        while i < len(pending):
            if rng.random() < 0.3 and len(pending) - i >= 2:
                j = rng.randint(i + 2, len(pending))
                ops.append({"op": "register_list", "items": pending[i:j]})
                i = j
            else:
                ops.append(dict(pending[i], op="register"))
                i += 1
    n_initial = len(ops)
    for n in range(k["n_notify"]):
        if rng.random() < k["p_late_register"] and hid < 24:
            e = rng.choice(events)
            ops.append({"op": "register", "event": e, "h": hid, "langs": _gen_langs(rng, k)})
            regs[e].append(hid)
            hid += 1
        if rng.random() < k.get("p_list", 0):
            ops.append({"op": "list"})        # the public diagnostic listing must not disturb dispatch
        if rng.random() < k["p_unknown_event"]:
            ops.append({"op": "notify", "event": f"U{rng.randrange(len(UNKNOWN_EVENTS))}", "lang": rng.choice(LANGS),
                        "returns": {}, "sets_out": {}})
            continue
        e = rng.choice(events)
        returns, sets_out = {}, {}
        for h in regs[e]:
            f = _gen_flags(rng, k)
            returns[str(h)] = f
            sets_out[str(h)] = bool(rng.random() < (0.75 if f != 0 else 0.25))
        nop = {"op": "notify", "event": e, "lang": rng.choice(LANGS + ["other"]), "returns": returns, "sets_out": sets_out}
        if rng.random() < 0.15:
            nop["reuse_data"] = True      # the caller re-raises / forwards the SAME EventData object (fields updated) instead of a new one
        others = sorted({x for x in events if x != e})
        if regs[e] and others and rng.random() < k.get("p_reentrant", 0):
            other = rng.choice(others)
            if rng.random() < 0.6:
                # re-entrancy: while it runs, this handler raises ANOTHER event on the same manager
                nop["nested"] = {"h": rng.choice(regs[e]), "event": other, "lang": rng.choice(LANGS)}
            elif hid < 24:
                # ... or registers a new handler for ANOTHER event (must not disturb the dispatch in progress)
                nop["late_reg"] = {"h": rng.choice(regs[e]), "new_h": hid, "event": other, "langs": _gen_langs(rng, k)}
                regs[other].append(hid)
                hid += 1
        ops.append(nop)
    return ops


# ----------------------------------------------------------------------------- executor

_SHARED = {}


def _langs_arg(spec):
    kind, v = spec["kind"], spec["v"]
    if kind == "list" and spec.get("share"):
        # one list object passed to several registrations (cleared per run)
        if spec["share"] not in _SHARED:
            _SHARED[spec["share"]] = list(v)
        return _SHARED[spec["share"]]
    if kind == "default":
        return None
    if kind == "str":
        return v[0]
    if kind == "list":
        return list(v)
    if kind == "set":
        return set(v)
    return tuple(v)


def _do_register(em, op, handlers):
    langs = _langs_arg(op["langs"])
    if langs is None:
        em.register(op["_event"], handlers[op["h"]])
    else:
        em.register(op["_event"], handlers[op["h"]], langs)


def _model_langs(spec):
    if spec["kind"] == "default":
        return [ANY]
    return list(spec["v"])


def execute_invivo(trace):
    """the default registration table (plus the extern system's late registration) under the real pipeline's notifications."""
    out, rep = invivo.run_ops(trace["ops"])
    st = rep.get("stats", {})
    probes = {}
    if st.get("c17_notifications"):
        probes["invivo_notifications"] = st["c17_notifications"]
    if st.get("c17_handlers_invoked"):
        probes["invivo_handlers_invoked"] = st["c17_handlers_invoked"]
    if st.get("c17_multi_handler_notifications"):
        probes["invivo_multi_handler_notifications"] = st["c17_multi_handler_notifications"]
    violation = None
    vs = rep.get("c17", [])
    if vs:
        violation = {"step": len(trace["ops"]) - 1, "cls": "invivo:" + vs[0]["cls"], "detail": dict(vs[0], count=len(vs), run_status=out.get("status"))}
    log = [out.get("status"), out.get("detail", ""), st.get("c17_notifications"), st.get("c17_handlers_invoked"), [v["cls"] for v in vs]]
    return {"violation": violation, "probes": probes, "states": set(), "trans": set(), "steps": st.get("c17_notifications", 0),
            "log": digest_hex(log), "extra": {"invivo_none_returns": st.get("c17_none_returns", 0),
                                              "invivo_monitor_errors": st.get("c17_monitor_errors", 0)}}


def execute(trace):
    try:
        from lian.config import config as _cfg0
        _cfg0.DEBUG_FLAG = False
    except Exception:  # noqa
        pass
    k = trace["knobs"]
    pop = k["population"]
    if pop == "invivo":
        return execute_invivo(trace)
    probes = {}
    states, trans = set(), set()
    log = []
    violation = None

    def hit(name, n=1):
        probes[name] = probes.get(name, 0) + n

    _SHARED.clear()
    options = SimpleNamespace(event_handlers=[], debug=bool(k.get("debug")))
    if k.get("options_lang") is not None:
        options.lang = k["options_lang"]
        options.quiet = True
        options.workspace = "lian_workspace"
        hit("options_carry_language_list")
    invoked = []          # (hid, in_data seen) for the current notify
    script = {"returns": {}, "sets_out": {}, "n": 0}
    handlers = {}

    nested_log = []      # (nested event, nested lang, [(hid, in_data)], return) performed from inside a handler
    reent = {"nested": None, "late_reg": None, "em": None, "resolve": None}

    rich = bool(k.get("rich_data"))
    owners = {}          # handler id -> the stateful object that was registered (bound-method owner / callable object)
    ran_total = {}       # handler id -> number of invocations logged by the probe body

    def out_value(n, h):
        """what handler h leaves in out_data during notification n"""
        if not rich:
            return f"out{n}.{h}"
        kind = (n + h) % 10
        if kind >= 5:
            # results that are empty / falsy are results all the same
            return ["", [], {}, (), None][kind - 5]
        if kind == 0:
            return {"kind": "result", "n": n, "h": h}
        if kind == 1:
            return {n: "by_number", (h, n): "by_tuple"}          # a dict whose keys are not strings
        if kind == 2:
            return [n, h, f"out{n}.{h}"]
        if kind == 3:
            return SimpleNamespace(n=n, h=h)
        return f"out{n}.{h}"

    def J(x):
        """JSON-able description of a data value (type and content)"""
        if isinstance(x, str) or x is None:
            return x
        if isinstance(x, dict):
            return {"__dict__": sorted([repr(k_), repr(v_)] for k_, v_ in x.items())}
        if isinstance(x, SimpleNamespace):
            return {"__namespace__": sorted([k_, repr(v_)] for k_, v_ in vars(x).items())}
        if isinstance(x, (list, tuple)):
            return {"__" + type(x).__name__ + "__": [repr(v_) for v_ in x]}
        return {"__other__": repr(x)}

    def make_handler(h):
        def handler(data):
            invoked.append((h, J(data.in_data)))
            nst, lrg = reent["nested"], reent["late_reg"]
            if nst is not None and nst["h"] == h and nst.get("_ev") is not None and not nst.get("_done"):
                nst["_done"] = True
                outer = list(invoked)
                del invoked[:]
                nres = reent["em"].notify(_EventData(nst["lang"], nst["_ev"], "nested_in"))
                nested_log.append((nst["_ev"], nst["lang"], list(invoked), nres))
                invoked[:] = outer
            if lrg is not None and lrg["h"] == h and lrg.get("_ev") is not None and not lrg.get("_done"):
                lrg["_done"] = True
                la = _langs_arg(lrg["langs"])
                if la is None:
                    reent["em"].register(lrg["_ev"], handlers[lrg["new_h"]])
                else:
                    reent["em"].register(lrg["_ev"], handlers[lrg["new_h"]], la)
            if script["sets_out"].get(str(h)):
                data.out_data = out_value(script["n"], h)
            return script["returns"].get(str(h), 0)
        handler.__name__ = f"probe_{h}"
        if not k.get("exotic_handlers"):
            return handler
        shape = (h + int(k.get("n_notify", 0))) % 4
        if shape == 1:
            class Owner:
                def __init__(self):
                    self.seen = 0              # the state of the plug-in instance whose method was registered
                def run(self, data):
                    self.seen += 1
                    return handler(data)
            hit("handler_bound_method")
            owners[h] = Owner()
            return owners[h].run
        if shape == 2:
            import functools
            hit("handler_partial")
            return functools.partial(lambda tag, data: handler(data), f"probe_{h}")
        if shape == 3:
            class Callable_:
                def __init__(self):
                    self.seen = 0
                def __call__(self, data):
                    self.seen += 1
                    return handler(data)
            hit("handler_callable_object")
            owners[h] = Callable_()
            return owners[h]
        return handler

    all_h = set()
    for op in trace["ops"]:
        if op["op"] == "register":
            all_h.add(op["h"])
        elif op["op"] == "list":
            continue
        elif op["op"] == "notify":
            if op.get("late_reg"):
                all_h.add(op["late_reg"]["new_h"])
            continue
        elif op["op"] == "register_list":
            all_h.update(i["h"] for i in op["items"])
    for h in all_h:
        handlers[h] = make_handler(h)
    if k.get("exotic_handlers"):
        # some handlers are bound methods of objects that NOBODY but the registration refers to (em.register(ev, Collector().handle)):
        # the manager has to keep them alive
        class _Handlers(dict):
            def __getitem__(self, h_):
                body = dict.__getitem__(self, h_)
                if h_ % 3 == 2 and h_ not in owners and callable(body):
                    class Ephemeral:
                        def handle(self, data):
                            return body(data)
                    hit("handler_owner_referenced_by_registration_only")
                    return Ephemeral().handle
                return body
        handlers = _Handlers(handlers)
        import gc
        gc.collect()

    # ---- resolve symbolic events to real kinds
    kinds = _EVENT_KINDS

    name_of = {}           # symbolic event -> declared name (events addressed by name)

    def resolve(ev, usable):
        if ev.startswith("U"):
            return UNKNOWN_EVENTS[int(ev[1:]) % len(UNKNOWN_EVENTS)]
        if ev.startswith("N"):
            # a declared kind, by name: supported ones only if probe data may be sent to them in this population
            names = [n_ for n_ in _DECLARED_NAMES if _DECLARED[n_] in usable or _DECLARED[n_] not in kinds]
            if not names:
                return None
            nm = names[int(ev[1:]) % len(names)]
            name_of[ev] = nm
            return _DECLARED[nm]
        if not usable:
            return None
        return usable[int(ev[1:]) % len(usable)]

    # ---- build the manager
    global _PLUGIN_SPEC
    ops = [dict(op) for op in trace["ops"]]
    first_notify = next((i for i, op in enumerate(ops) if op["op"] == "notify"), len(ops))
    plugin_ops = []
    try:
        with contextlib.redirect_stdout(io.StringIO()), contextlib.redirect_stderr(io.StringIO()):
            if pop == "prod":
                em = _em_mod.EventManager(options)
            elif pop == "plugin":
                class Bare(_em_mod.EventManager):
                    def register_default_event_handlers(self):
                        pass
                usable = list(kinds)
                for op in ops[:first_notify]:
                    if op["op"] == "list":
                        continue
                    if op["op"] == "register":
                        plugin_ops.append(dict(op, _event=resolve(op["event"], usable)))
                    else:
                        for it in op["items"]:
                            plugin_ops.append(dict(it, _event=resolve(it["event"], usable)))
                _PLUGIN_SPEC = {"ops": plugin_ops, "handlers": handlers, "loaded": False}
                options.event_handlers = [_plugin_path]
                em = Bare(options)
                if _PLUGIN_SPEC["loaded"]:
                    hit("plugin_loaded")
                else:
                    violation = {"step": 0, "cls": "plugin_not_loaded", "detail": {"path": "options.event_handlers"}}
                _PLUGIN_SPEC = None
            else:
                class Bare(_em_mod.EventManager):
                    def register_default_event_handlers(self):
                        pass
                em = Bare(options)
    finally:
        _PLUGIN_SPEC = None

    table = getattr(em, "event_handlers", None)
    if pop == "prod":
        # event kinds that can be notified with probe data: no default handler for every language
        try:
            usable = [e for e in kinds if not any(ANY in langs for langs, _ in table[e])]
            if any(len(v) for v in table.values()):
                hit("prod_default_table")
        except Exception:  # noqa  table layout changed: population skipped, never a violation
            return {"violation": None, "probes": {}, "states": set(), "trans": set(), "steps": 0,
                    "log": digest_hex("skipped"), "extra": {"prod_population_skipped": 1}}
    else:
        usable = list(kinds)

    model = {}     # real event kind -> list of (hid, langs)
    name_model = {}     # declared name -> handler ids registered under that name
    n_notify = 0
    last_data = [None]
    from lian.config import config as _cfg
    _cfg.DEBUG_FLAG = False
    if k.get("debug"):
        hit("debug_mode")
        if k.get("debug_flag"):
            _cfg.DEBUG_FLAG = True        # what `-d` without `-q` switches on: util.debug() really formats and prints
            hit("global_debug_flag")
    if rich:
        hit("rich_data")

    for step, op in enumerate(ops):
        if violation:
            break
        kind = op["op"]
        try:
            with contextlib.redirect_stdout(io.StringIO()), contextlib.redirect_stderr(io.StringIO()):
                if kind == "list":
                    em.list_installed_handlers()
                    hit("listed_handlers")
                    log.append(["list"])
                    continue
                if kind in ("register", "register_list"):
                    items = [op] if kind == "register" else op["items"]
                    real_items = []
                    for it in items:
                        ev = resolve(it["event"], usable)
                        if ev is None:
                            continue
                        real_items.append(dict(it, _event=ev))
                        model.setdefault(ev, []).append((it["h"], _model_langs(it["langs"])))
                        if it["event"] in name_of:
                            name_model.setdefault(name_of[it["event"]], []).append(it["h"])
                            hit("registered_by_declared_name")
                            if ev not in kinds:
                                hit("registered_for_unsupported_declared_kind")
                        lk = it["langs"]["kind"]
                        if any(h_ == it["h"] for h_, _ in model[ev][:-1]):
                            hit("same_handler_twice")
                        if it["langs"].get("share"):
                            hit("shared_lang_list")
                        if lk == "str":
                            hit("str_lang")
                        elif lk == "set":
                            hit("set_lang")
                    if pop == "plugin" and step < first_notify:
                        pass   # already registered by the plugin during construction
                    elif kind == "register":
                        for it in real_items:
                            _do_register(em, it, handlers)
                    else:
                        hit("register_list")
                        lst = []
                        for it in real_items:
                            la = _langs_arg(it["langs"])
                            lst.append(_EventHandler(langs=ANY if la is None else la, event=it["_event"],
                                                     handler=handlers[it["h"]]))
                        em.register_list(lst)
                    log.append([kind, len(real_items)])
                    continue
                # ---- notify
                ev = resolve(op["event"], usable)
                if ev is None:
                    continue
                lang = op["lang"]
                script["returns"], script["sets_out"], script["n"] = op["returns"], op["sets_out"], n_notify
                n_notify += 1
                del invoked[:]
                del nested_log[:]
                reent["em"] = em
                reent["nested"] = dict(op["nested"], _ev=resolve(op["nested"]["event"], usable)) if op.get("nested") else None
                reent["late_reg"] = dict(op["late_reg"], _ev=resolve(op["late_reg"]["event"], usable)) if op.get("late_reg") else None
                for spec_ in (reent["nested"], reent["late_reg"]):
                    if spec_ is not None and spec_["_ev"] == ev:
                        spec_["_ev"] = None          # only OTHER events: what a dispatch does to itself is not defined by the property
                if op.get("reuse_data") and last_data[0] is not None:
                    data = last_data[0]
                    data.lang, data.event, data.in_data = lang, ev, f"in{n_notify}"
                    hit("eventdata_reused")
                else:
                    data = _EventData(lang, ev, f"in{n_notify}")
                last_data[0] = data
                res = em.notify(data)
        except Exception as e:  # noqa
            violation = {"step": step, "cls": "exception", "detail": {"op": op, "error": f"{type(e).__name__}: {e}"}}
            break
        # ---- model fold
        regs = model.get(ev, []) if ev in kinds else []
        if ev not in kinds:
            hit("unknown_event")
        exp_seq = []      # fold A: out_data is one shared slot (what the implementation does)
        alt_seq = []      # fold B: only processed handlers' outputs count as "left by the previous successful handler"
        cur_in = cur_out = f"in{n_notify}"
        b_in = b_out = f"in{n_notify}"
        union, nonzero, blocked = 0, False, False
        cls_vec = []
        for h, langs in regs:
            match = (lang in langs) or (ANY in langs)
            if not match:
                hit("lang_filtered")
                if any(lang != l and (lang in l) for l in langs):
                    hit("substring_lang")
                cls_vec.append("-")
                continue
            if ANY in langs and lang not in langs:
                hit("any_lang_match")
            exp_seq.append((h, cur_in))
            alt_seq.append((h, b_in))
            r = op["returns"].get(str(h), 0)
            if op["sets_out"].get(str(h)):
                cur_out = J(out_value(n_notify - 1, h))
                if r != 0:
                    b_out = cur_out
                else:
                    hit("unprocessed_set_out")
            union |= r
            nonzero = nonzero or r != 0
            if bin(r).count("1") > 1:
                hit("flags_multi")
            if r & 2:
                blocked = True
                cls_vec.append("B")
                hit("blocked")
                break
            if r != 0:
                if cur_in != cur_out:
                    hit("data_chained")
                cur_in = cur_out
                b_in = b_out
                cls_vec.append("P")
            else:
                hit("unprocessed_kept_data")
                cls_vec.append("U")
        if regs and not exp_seq:
            hit("no_handler_matched")
        obs_seq = [(h, d) for h, d in invoked]
        for h_, _ in obs_seq:
            ran_total[h_] = ran_total.get(h_, 0) + 1
        for nlog in nested_log:
            for h_, _ in nlog[2]:
                ran_total[h_] = ran_total.get(h_, 0) + 1
        stale_owner = sorted(h_ for h_, o_ in owners.items() if o_.seen != ran_total.get(h_, 0))
        if stale_owner and not violation:
            # the object that was registered is the object that runs: its own state must have seen every invocation
            violation = {"step": step, "cls": "copy_of_handler_ran",
                         "detail": {"op": {"op": "notify", "event": op["event"]}, "handlers": stale_owner,
                                    "invocations_logged": {str(h_): ran_total.get(h_, 0) for h_ in stale_owner},
                                    "invocations_seen_by_registered_object": {str(h_): owners[h_].seen for h_ in stale_owner}}}
            break
        if op["event"] in name_of and not violation:
            # two declared kinds are two events: a handler registered under ANOTHER name never runs for this one
            hit("raised_by_declared_name")
            mine = set(name_model.get(name_of[op["event"]], []))
            foreign = sorted({h for h, _ in obs_seq} - mine)
            if foreign and not any(o_.get("event", "").startswith(("E", "U")) for o_ in ops if o_["op"] != "register_list"):
                violation = {"step": step, "cls": "handler_of_other_kind_ran",
                             "detail": {"op": {"op": "notify", "event": op["event"]}, "raised": name_of[op["event"]], "handlers_run": foreign,
                                        "registered_under": sorted(n_ for n_, hs in name_model.items() if set(hs) & set(foreign))}}
                break
        cls = f"{len(regs)}|{''.join(cls_vec)}"
        states.add(h64(cls))
        trans.add(h64(f"{cls}|{res}"))
        log.append(["notify", ev, lang, obs_seq, res if isinstance(res, int) else repr(res)])
        exp_h, obs_h = [h for h, _ in exp_seq], [h for h, _ in obs_seq]
        detail = {"op": op, "event": ev, "registered": [[h, l] for h, l in regs],
                  "expected_calls": exp_seq, "observed_calls": obs_seq, "return": res if isinstance(res, int) else repr(res)}
        if sorted(exp_h) != sorted(obs_h):
            extra = set(obs_h) - set(exp_h)
            missing = set(exp_h) - set(obs_h)
            if blocked and missing and not extra and obs_h == exp_h[:len(obs_h)]:
                c = "stopped_early"
            elif extra and blocked and exp_h == obs_h[:len(exp_h)]:
                c = "not_blocked"
            elif extra:
                c = "wrong_handler_ran"
            else:
                c = "handler_skipped"
            violation = {"step": step, "cls": c, "detail": detail}
        elif exp_h != obs_h:
            violation = {"step": step, "cls": "order", "detail": detail}
        elif exp_seq != obs_seq and alt_seq != obs_seq:
            detail["expected_calls_alt"] = alt_seq
            violation = {"step": step, "cls": "data_chain", "detail": detail}
        elif not isinstance(res, int) or (res & union) != union or (res & ~(union | (1 if nonzero else 0))) != 0:
            detail["expected_union"] = union
            violation = {"step": step, "cls": "return_flags", "detail": detail}
        if violation is None and reent["nested"] is not None and reent["nested"].get("_done"):
            hit("reentrant_notify")
            nev, nlang, nseq, nres = nested_log[0]
            nregs = model.get(nev, []) if nev in kinds else []
            nexp = [(h_, "nested_in") for h_, l_ in nregs if (nlang in l_) or (ANY in l_)]
            # nested handlers are not scripted for this notification: they return 0 and keep the data
            if nseq != nexp or nres != 0:
                violation = {"step": step, "cls": "nested_dispatch", "detail": {"op": op, "nested_event": nev, "expected_calls": nexp,
                                                                                "observed_calls": nseq, "return": nres}}
        if violation is None and reent["late_reg"] is not None and reent["late_reg"].get("_done"):
            hit("registered_during_dispatch")
            lr = reent["late_reg"]
            model.setdefault(lr["_ev"], []).append((lr["new_h"], _model_langs(lr["langs"])))
            if lr["event"] in name_of:
                name_model.setdefault(name_of[lr["event"]], []).append(lr["new_h"])
    _cfg.DEBUG_FLAG = False
    return {"violation": violation, "probes": probes, "states": states, "trans": trans,
            "steps": len(ops), "log": digest_hex([log, violation])}


# ----------------------------------------------------------------------------- signature / simplification

def signature(trace, violation):
    if violation["cls"].startswith("invivo:"):
        return f"{violation['cls']}:event{violation['detail'].get('event')}"
    nr = sum(1 if op["op"] == "register" else len(op["items"]) for op in trace["ops"] if op["op"] in ("register", "register_list"))
    nn = sum(1 for op in trace["ops"] if op["op"] == "notify")
    extra = ("+list" if any(op["op"] == "list" for op in trace["ops"]) else "") + ("+debug" if trace["knobs"].get("debug") else "")
    return f"{violation['cls']}:{nr}reg:{nn}notify{extra}"


def simplify(trace):
    ops = trace["ops"]
    if trace["knobs"]["population"] == "invivo":
        return
    if trace["knobs"].get("debug"):
        yield dict(trace, knobs=dict(trace["knobs"], debug=False))
    # population: prefer 'bare'
    if trace["knobs"]["population"] != "bare":
        yield dict(trace, knobs=dict(trace["knobs"], population="bare"))
    for i, op in enumerate(ops):
        if op["op"] == "register_list":
            # split into single registers
            new = ops[:i] + [dict(it, op="register") for it in op["items"]] + ops[i + 1:]
            yield dict(trace, ops=new)
        if op["op"] == "register":
            la = op["langs"]
            if la["kind"] not in ("list",) and la["kind"] != "default":
                yield dict(trace, ops=ops[:i] + [dict(op, langs={"kind": "list", "v": la["v"]})] + ops[i + 1:])
            if len(la["v"]) > 1:
                for j in range(len(la["v"])):
                    v = la["v"][:j] + la["v"][j + 1:]
                    yield dict(trace, ops=ops[:i] + [dict(op, langs={"kind": la["kind"], "v": v})] + ops[i + 1:])
        if op["op"] == "notify":
            for h, f in sorted(op["returns"].items()):
                for simpler in (0, 1, 2):
                    if f != simpler and f > simpler:
                        r = dict(op["returns"]); r[h] = simpler
                        so = dict(op["sets_out"])
                        if simpler == 0:
                            so[h] = False
                        yield dict(trace, ops=ops[:i] + [dict(op, returns=r, sets_out=so)] + ops[i + 1:])
