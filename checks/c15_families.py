"""Loader families for C15: how to construct each loader, generate token-carrying content for it, save and read it.

Every generated value carries a token derived from a per-save unique base `tok` (a multiple of 1000, >= 1000):
ints tok+1 .. tok+999 and strings 'tk<tok>_<n>'.  So a read is attributable to exactly one save.
Content descriptors are pure JSON data; build() turns a descriptor into the object the public API takes.
"""
import os

_L = None     # lian.util.loader
_CS = None    # lian.common_structs
_SCHEMA = None
_NX = None


def setup():
    global _L, _CS, _SCHEMA, _NX
    import networkx
    import lian.util.loader as L
    import lian.common_structs as CS
    from lian.config import schema
    _L, _CS, _SCHEMA, _NX = L, CS, schema, networkx


class Options:
    """the only attribute of options the sub-loaders look at is none; Loader() itself needs .workspace"""
    def __init__(self, workspace=""):
        self.workspace = workspace
        self.debug = False
        self.lang_extensions = []


def key_of(kd):
    if kd["k"] == "cs":
        return _CS.CallSite(*kd["v"])
    if kd["k"] == "hash":
        return hash(tuple(kd["v"]))
    return kd["v"]


# ------------------------------------------------------------------------------------------------ base classes

class Fam:
    name = ""
    kind = "general"          # general (GeneralLoader subclass: caches + bundles) | dict (one file, in-memory dict)
    key_kinds = ("int",)
    restart_ok = True         # False: restart disabled because of a listed known finding (see KNOWN_FINDINGS.txt)

    # ---- general loaders
    cls = None
    schema = None

    def make(self, d, icap, bcap):
        sch = self.schema() if callable(self.schema) else ([] if self.schema is None else self.schema)
        return getattr(_L, self.cls)(Options(), sch, os.path.join(d, self.name), icap, bcap)

    def gen(self, rng, tok, size):
        raise NotImplementedError

    def build(self, key, desc):
        raise NotImplementedError

    def save(self, loader, key, obj):
        return loader.save(key, obj)

    def get(self, loader, key):
        return loader.get_item_by_id(key)

    def contain(self, loader, key):
        return loader.contain(key)

    def rows_of(self, desc):
        """number of flattened rows this content produces (for MAX_ROWS reasoning / probes)."""
        return len(desc["rows"]) if "rows" in desc else 1


def _name(tok, n):
    # every third name is not ASCII (identifiers and string values in analysed programs need not be)
    return f"tk{tok}_{n}" if n % 3 else f"tk{tok}_{n}_\u00e4\u540d"


# ------------------------------------------------------------------------------------------------ unit-level tables

class UnitRows(Fam):
    def __init__(self, name, cls):
        self.name, self.cls = name, cls

    def gen(self, rng, tok, size):
        rows = []
        for i in range(size):
            r = {"operation": rng.choice(["assign_stmt", "call_stmt", "variable_decl", "block_start", "return_stmt"]),
                 "stmt_id": tok + 1 + i, "parent_stmt_id": tok, "name": _name(tok, i)}
            if rng.random() < 0.4:
                r["target"] = _name(tok, 100 + i)
            if rng.random() < 0.3:
                r["attrs"] = [_name(tok, 200 + i), "public"]
            rows.append(r)
        if rng.random() < 0.25:
            # rows re-used from another unit / an earlier workspace still carry that unit's id
            stale = rng.choice([11, 12, 13, 14, 15, 99])
            for r in rows:
                r["unit_id"] = stale
        if len(rows) >= 2 and rng.random() < 0.04:
            # a column whose plain values differ in kind (a number in one row, text in another): the Arrow writer refuses such a
            # bundle; the refusal has to be reported, and nothing may be stored in an altered form instead
            for i, r in enumerate(rows):
                r["value"] = (tok + i) if i % 2 == 0 else f"lit{tok}_{i}"
            return {"rows": rows, "mixed": True}
        return {"rows": rows}

    def build(self, key, desc):
        return [dict(r) for r in desc["rows"]]


class DictOfSets(Fam):
    """{str|int: set[int]} kinds: ClassIDToMembers, SymbolNameToScopeIDs, ScopeIDToAvailableScopeIDs, SymbolNameToDeclIDs,
    MethodSymbolToUsed"""
    def __init__(self, name, cls, str_keys):
        self.name, self.cls, self.str_keys = name, cls, str_keys

    def gen(self, rng, tok, size):
        rows = []
        for i in range(size):
            k = _name(tok, i) if self.str_keys else tok + 1 + i
            rows.append([k, sorted({tok + 300 + rng.randrange(20) for _ in range(rng.randint(1, 3))})])
        return {"rows": rows}

    def build(self, key, desc):
        return {k: set(v) for k, v in desc["rows"]}


class ScopeSymbolInfo(Fam):
    name, cls = "scope_id_to_symbol_info", "ScopeIDToSymbolInfoLoader"

    def gen(self, rng, tok, size):
        return {"rows": [[tok + 1 + i, {_name(tok, 10 * i + j): tok + 400 + 10 * i + j for j in range(rng.randint(1, 3))}]
                         for i in range(size)]}

    def build(self, key, desc):
        return {k: dict(v) for k, v in desc["rows"]}


# ------------------------------------------------------------------------------------------------ graphs

class CFG(Fam):
    name, cls = "cfg", "CFGLoader"

    def schema(self):
        return _SCHEMA.control_flow_graph_schema

    def gen(self, rng, tok, size):
        edges = []
        for i in range(size):
            edges.append([tok + 1 + i, tok + 2 + i, rng.choice([0, 1, 2, 3, tok + 700 + i])])
        return {"rows": edges}

    def build(self, key, desc):
        g = _CS.ControlFlowGraph(key)
        for s, d, w in desc["rows"]:
            g.add_edge(s, d, w)
        return g.graph


class SymGraph(Fam):
    name, cls = "symbol_graph", "SymbolGraphLoader"

    def schema(self):
        return _SCHEMA.symbol_graph_schema_p2

    def gen(self, rng, tok, size):
        rows = []
        for i in range(size):
            rows.append({"defined": rng.random() < 0.5, "stmt": tok + 1 + i, "node": [i, tok + 500 + i, tok + 600 + i],
                         "w": rng.choice([1, 2, 3])})
        return {"rows": rows}

    def build(self, key, desc):
        g = _CS.SymbolGraph(key)
        for r in desc["rows"]:
            node = _CS.SymbolDefNode(index=r["node"][0], symbol_id=r["node"][1], stmt_id=r["node"][2])
            if r["defined"]:
                g.add_edge(r["stmt"], node, r["w"])
            else:
                g.add_edge(node, r["stmt"], r["w"])
        return g.graph


class SFG(Fam):
    name, cls = "state_flow_graph", "StateFlowGraphLoader"

    def schema(self):
        return _SCHEMA.state_flow_graph_schema_p2

    def gen(self, rng, tok, size):
        rows = []
        for i in range(size):
            rows.append({"src": [rng.choice([2, 3]), tok + 1 + i, i, tok + 500 + i, tok + 50, _name(tok, i)],
                         "dst": [rng.choice([1, 2, 3]), tok + 100 + i, i + 1, tok + 600 + i, tok + 50, _name(tok, 50 + i)],
                         "edge": [rng.choice([1, 2, 3, 5, 7]), tok + 700 + i, rng.choice([0, 1]), i, _name(tok, 70 + i)]})
        return {"rows": rows}

    def build(self, key, desc):
        g = _CS.StateFlowGraph(key)
        for r in desc["rows"]:
            s, d, e = r["src"], r["dst"], r["edge"]
            sn = _CS.SFGNode(node_type=s[0], def_stmt_id=s[1], index=s[2], node_id=s[3], context=s[4], name=s[5])
            dn = _CS.SFGNode(node_type=d[0], def_stmt_id=d[1], index=d[2], node_id=d[3], context=d[4], name=d[5])
            g.add_edge(sn, dn, _CS.SFGEdge(edge_type=e[0], stmt_id=e[1], round=e[2], pos=e[3], name=e[4]))
        return g.graph


# ------------------------------------------------------------------------------------------------ method-level results

class BitVec(Fam):
    def __init__(self, name, state):
        self.name, self.cls, self.state = name, "BitVectorManagerLoader", state

    def gen(self, rng, tok, size):
        return {"rows": [[i, tok + 1 + i, tok + 100 + i] for i in range(size)]}

    def build(self, key, desc):
        m = _CS.BitVectorManager()
        for idx, _id, stmt in desc["rows"]:
            if self.state:
                m.add_bit_id(_CS.StateDefNode(index=idx, state_id=_id, stmt_id=stmt))
            else:
                m.add_bit_id(_CS.SymbolDefNode(index=idx, symbol_id=_id, stmt_id=stmt))
        return m


class StmtStatusFam(Fam):
    name, cls = "stmt_status", "StmtStatusLoader"

    def gen(self, rng, tok, size):
        rows = []
        for i in range(size):
            rows.append({
                "stmt_id": tok + 1 + i, "defined_symbol": tok + 100 + i,
                "used": [tok + 200 + i, tok + 201 + i][:rng.randint(0, 2)],
                "idef": [tok + 300 + i][:rng.randint(0, 1)], "iuse": [tok + 310 + i][:rng.randint(0, 1)],
                "in_sym": [[j, tok + 400 + j, tok + 410 + j] for j in range(rng.randint(0, 2))],
                "out_sym": [[j, tok + 420 + j, tok + 430 + j] for j in range(rng.randint(0, 2))],
                "def_states": [tok + 500 + i][:rng.randint(0, 1)],
                "in_st": [[j, tok + 600 + j, tok + 610 + j] for j in range(rng.randint(0, 2))],
                "out_st": [[j, tok + 620 + j, tok + 630 + j] for j in range(rng.randint(0, 2))],
                "field": rng.choice(["", _name(tok, 90 + i)]),
            })
        return {"rows": rows}

    def build(self, key, desc):
        out = {}
        S, T = _CS.SymbolDefNode, _CS.StateDefNode
        for r in desc["rows"]:
            out[r["stmt_id"]] = _CS.StmtStatus(
                stmt_id=r["stmt_id"], defined_symbol=r["defined_symbol"], used_symbols=list(r["used"]),
                implicitly_defined_symbols=list(r["idef"]), implicitly_used_symbols=list(r["iuse"]),
                in_symbol_bits={S(index=a, symbol_id=b, stmt_id=c) for a, b, c in r["in_sym"]},
                out_symbol_bits={S(index=a, symbol_id=b, stmt_id=c) for a, b, c in r["out_sym"]},
                defined_states=set(r["def_states"]),
                in_state_bits={T(index=a, state_id=b, stmt_id=c) for a, b, c in r["in_st"]},
                out_state_bits={T(index=a, state_id=b, stmt_id=c) for a, b, c in r["out_st"]},
                field_name=r["field"])
        return out


class StateSpace(Fam):
    name, cls = "symbol_state_space", "SymbolStateSpaceLoader"

    def gen(self, rng, tok, size):
        rows = []
        for i in range(size):
            if rng.random() < 0.5:
                rows.append({"sym": True, "stmt_id": tok + 1 + i, "symbol_id": tok + 100 + i, "unit": tok + 900,
                             "name": _name(tok, i), "dtype": rng.choice(["", "int", _name(tok, 40 + i)]),
                             "states": sorted({rng.randrange(size + 1) for _ in range(rng.randint(0, 2))})})
            else:
                rows.append({"sym": False, "stmt_id": tok + 1 + i, "state_id": tok + 200 + i,
                             "dtype": rng.choice(["", "str", "object"]), "stype": rng.choice([0, 1]),
                             "value": rng.choice(["", _name(tok, 60 + i)]),
                             "fields": {_name(tok, 70 + i): [rng.randrange(size + 1)]} if rng.random() < 0.4 else {},
                             "array": [[rng.randrange(size + 1)]] if rng.random() < 0.3 else [],
                             "tflag": rng.random() < 0.2,
                             "telems": [rng.randrange(size + 1)] if rng.random() < 0.2 else [],
                             "path": [[9, _name(tok, 80 + i), tok + 300 + i]] if rng.random() < 0.4 else []})
        return {"rows": rows}

    def build(self, key, desc):
        sp = _CS.SymbolStateSpace()
        for r in desc["rows"]:
            if r["sym"]:
                sp.add(_CS.Symbol(stmt_id=r["stmt_id"], name=r["name"], default_data_type=r["dtype"],
                                  states=set(r["states"]), symbol_id=r["symbol_id"], source_unit_id=r["unit"]))
            else:
                sp.add(_CS.State(stmt_id=r["stmt_id"], state_id=r["state_id"], state_type=r["stype"], data_type=r["dtype"],
                                 value=r["value"], fields={k: set(v) for k, v in r["fields"].items()},
                                 array=[set(a) for a in r["array"]], tangping_flag=r["tflag"],
                                 tangping_elements=set(r["telems"]),
                                 access_path=[_CS.AccessPoint(kind=a, key=b, state_id=c) for a, b, c in r["path"]]))
        return sp


class ParamMapping(Fam):
    name, cls = "callee_parameter_mapping", "CalleeParameterMapping"
    key_kinds = ("cs",)

    def gen(self, rng, tok, size):
        rows = []
        for i in range(size):
            rows.append({"ai": i, "asid": tok + 1 + i, "assid": tok + 100 + i, "psid": tok + 200 + i,
                         "ptype": rng.choice([1, 2]), "default": rng.random() < 0.2,
                         "apath": [[9, _name(tok, 10 + i), tok + 300 + i]] if rng.random() < 0.5 else [],
                         "ppath": [4, _name(tok, 20 + i), tok + 400 + i] if rng.random() < 0.5 else None})
        return {"rows": rows}

    def build(self, key, desc):
        out = []
        for r in desc["rows"]:
            out.append(_CS.ParameterMapping(
                arg_index_in_space=r["ai"], arg_state_id=r["asid"], arg_source_symbol_id=r["assid"],
                arg_access_path=[_CS.AccessPoint(kind=a, key=b, state_id=c) for a, b, c in r["apath"]],
                parameter_symbol_id=r["psid"], parameter_type=r["ptype"],
                parameter_access_path=_CS.AccessPoint(*r["ppath"]) if r["ppath"] else None,
                is_default_value=r["default"]))
        return out


class DefinedSymbols(Fam):
    def __init__(self, name, cls, state):
        self.name, self.cls, self.state = name, cls, state

    def gen(self, rng, tok, size):
        return {"rows": [[tok + 1 + i, [[j, tok + 100 + 10 * i + j] for j in range(rng.randint(1, 3))]] for i in range(size)]}

    def build(self, key, desc):
        out = {}
        for sid, nodes in desc["rows"]:
            if self.state:
                out[sid] = {_CS.StateDefNode(index=a, state_id=sid, stmt_id=b) for a, b in nodes}
            else:
                out[sid] = {_CS.SymbolDefNode(index=a, symbol_id=sid, stmt_id=b) for a, b in nodes}
        return out


GENERAL = None


def general_families():
    global GENERAL
    if GENERAL is None:
        GENERAL = {f.name: f for f in [
            UnitRows("unit_gir", "UnitGIRLoader"),
            UnitRows("scope_hierarchy", "ScopeHierarchyLoader"),
            UnitRows("unit_export_symbols", "UnitIDToExportSymbolsLoader"),
            DictOfSets("class_id_to_members", "ClassIDToMembersLoader", True),
            DictOfSets("symbol_name_to_scope_ids", "SymbolNameToScopeIDsLoader", True),
            DictOfSets("scope_id_to_available_scope_ids", "ScopeIDToAvailableScopeIDsLoader", False),
            DictOfSets("symbol_name_to_decl_ids", "SymbolNameToDeclIDsLoader", True),
            DictOfSets("used_symbols", "MethodSymbolToUsedLoader", False),
            ScopeSymbolInfo(),
            CFG(), SymGraph(), SFG(),
            BitVec("symbol_bit_vector", False), BitVec("state_bit_vector", True),
            StmtStatusFam(), StateSpace(), ParamMapping(),
            DefinedSymbols("defined_symbols", "MethodSymbolToDefinedLoader", False),
            DefinedSymbols("defined_states", "MethodStateToDefinedLoader", True),
        ]}
    return GENERAL


# ================================================================================================ dict-backed loaders
# One file, an in-memory container, save / get / export / restore.  The durable model is exact: the file holds what the
# container held at the last successful export.

class DictFam:
    name = ""
    cls = ""

    def make(self, d):
        return getattr(_L, self.cls)(os.path.join(d, self.name))

    def gen(self, rng, tok, size):
        raise NotImplementedError

    def apply(self, loader, model, desc):
        """perform the save on the real loader AND on the pure model (a plain dict of canonical-isable values)."""
        raise NotImplementedError

    def snapshot(self, loader):
        """public containers of the loader, as plain objects (for canon / canon_guided)."""
        raise NotImplementedError

    def model_snapshot(self, model):
        return model


class OneToMany(DictFam):
    def __init__(self, name, cls):
        self.name, self.cls = name, cls

    def gen(self, rng, tok, size):
        return {"one": rng.choice([11, 12, 13]), "many": [tok + 1 + i for i in range(max(1, size))], "as_set": rng.random() < 0.3}

    def apply(self, loader, model, desc):
        many = set(desc["many"]) if desc["as_set"] else list(desc["many"])
        loader.save(desc["one"], many)
        model.setdefault("one_to_many", {})[desc["one"]] = set(desc["many"]) if desc["as_set"] else list(desc["many"])
        for m in desc["many"]:
            model.setdefault("many_to_one", {})[m] = desc["one"]

    def snapshot(self, loader):
        # the reverse map is compared for the ids currently listed only: an association overwritten by a later save of the
        # same key is not "an item saved" (the live loader keeps the stale reverse entry, a restored one does not)
        cur = {m for many in loader.one_to_many.values() for m in many}
        return {"one_to_many": loader.one_to_many, "many_to_one": {m: o for m, o in loader.many_to_one.items() if m in cur}}

    def model_snapshot(self, model):
        cur = {m for many in model.get("one_to_many", {}).values() for m in many}
        return {"one_to_many": model.get("one_to_many", {}), "many_to_one": {m: o for m, o in model.get("many_to_one", {}).items() if m in cur}}


class NameToIds(DictFam):
    """ClassIdToNameLoader / MethodIDToMethodNameLoader: save(name, id) accumulates a set per name"""
    def __init__(self, name, cls):
        self.name, self.cls = name, cls

    def gen(self, rng, tok, size):
        return {"name": rng.choice(["tkname_a", "tkname_b", f"tk{tok}_n"]), "id": tok + 1}

    def apply(self, loader, model, desc):
        loader.save(desc["name"], desc["id"])
        model.setdefault("one_to_many", {}).setdefault(desc["name"], set()).add(desc["id"])
        model.setdefault("many_to_one", {})[desc["id"]] = desc["name"]

    def snapshot(self, loader):
        return {"one_to_many": loader.one_to_many, "many_to_one": loader.many_to_one}


class StmtScope(DictFam):
    name, cls = "stmt_id_to_scope_id", "StmtIDToScopeIDLoader"

    def gen(self, rng, tok, size):
        return {"map": [[tok + 1 + i, tok + 500 + rng.randrange(3)] for i in range(size)]}

    def apply(self, loader, model, desc):
        loader.save({a: b for a, b in desc["map"]})
        model.setdefault("stmt_id_to_scope_id", {}).update({a: b for a, b in desc["map"]})

    def snapshot(self, loader):
        return {"stmt_id_to_scope_id": loader.stmt_id_to_scope_id}


class EntryPoints(DictFam):
    name, cls = "entry_points", "EntryPointsLoader"

    def gen(self, rng, tok, size):
        return {"ids": [tok + 1 + i for i in range(max(1, size))]}

    def apply(self, loader, model, desc):
        loader.save(list(desc["ids"]))
        model.setdefault("entry_points", set()).update(desc["ids"])

    def snapshot(self, loader):
        return {"entry_points": loader.entry_points}


class CallGraphFam(DictFam):
    name, cls = "call_graph", "CallGraphLoader"

    def gen(self, rng, tok, size):
        edges = [[tok + 1 + i, tok + 2 + i, tok + 100 + i] for i in range(max(1, size))]
        r = rng.random()
        if r < 0.3:
            # what a real analysis produces for calls it cannot resolve: negative callee ids, and edges without a call statement
            edges.append([tok + 1, -1 - rng.randrange(3), tok + 200])
            edges.append([tok + 3, -2, None])
        elif r < 0.45:
            edges.append([tok + 1, tok + 2, tok + 300])        # a second call statement between the same two methods
        return {"edges": edges}

    def apply(self, loader, model, desc):
        g = _CS.CallGraph()
        for a, b, w in desc["edges"]:
            g.add_edge(a, b, w)
        loader.save(g)
        g2 = _CS.CallGraph()
        for a, b, w in desc["edges"]:
            g2.add_edge(a, b, w)
        model["call_graph"] = g2

    def snapshot(self, loader):
        return {"call_graph": loader.call_graph}


class CallPaths(DictFam):
    name, cls = "call_paths", "CallPathLoader"

    def gen(self, rng, tok, size):
        return {"paths": [[[tok + 1 + i, tok + 10 + j, tok + 20 + j] for j in range(rng.randint(1, 3))] for i in range(max(1, size))]}

    def apply(self, loader, model, desc):
        def build():
            return {_CS.CallPath(tuple(_CS.CallSite(*s) for s in p)) for p in desc["paths"]}
        loader.save(build())
        model["all_paths"] = build()

    def snapshot(self, loader):
        return {"all_paths": loader.all_paths}


class InternalCallees(DictFam):
    name, cls = "internal_callees", "MethodInternalCalleesLoader"

    def gen(self, rng, tok, size):
        return {"method": rng.choice([11, 12, 13]),
                "callees": [[rng.choice([0, 1, 2]), tok + 1 + i, tok + 100 + i, i] for i in range(max(1, size))]}

    def apply(self, loader, model, desc):
        def build():
            return {_CS.MethodInternalCallee(desc["method"], a, b, c, d) for a, b, c, d in desc["callees"]}
        loader.save(desc["method"], build())
        model.setdefault("method_internal_callees_records", {})[desc["method"]] = build()

    def snapshot(self, loader):
        return {"method_internal_callees_records": loader.method_internal_callees_records}


class DefUseSummary(DictFam):
    name, cls = "def_use_summary", "MethodDefUseSummaryLoader"

    def gen(self, rng, tok, size):
        return {"method": rng.choice([11, 12, 13]), "params": [[tok + 1 + i, rng.choice([-1, tok + 50 + i])] for i in range(size)],
                "locals": [tok + 100 + i for i in range(size)], "defext": [tok + 200], "useext": [tok + 300, tok + 301][:rng.randint(0, 2)],
                "ret": [tok + 400][:rng.randint(0, 1)], "this": rng.choice([-1, tok + 500])}

    def apply(self, loader, model, desc):
        def build():
            return _CS.MethodDefUseSummary(desc["method"], {tuple(p) for p in desc["params"]}, set(desc["locals"]), set(desc["defext"]),
                                           set(desc["useext"]), set(desc["ret"]), desc["this"])
        loader.save(desc["method"], build())
        model.setdefault("method_summary_records", {})[desc["method"]] = build()

    def snapshot(self, loader):
        return {"method_summary_records": loader.method_summary_records}


class ExternalSymbolIds(DictFam):
    name, cls = "external_symbol_ids", "ExternalSymbolIDCollectionLoader"

    def gen(self, rng, tok, size):
        return {"method": rng.choice([11, 12, 13]), "ids": [tok + 1 + i for i in range(max(1, size))], "form": rng.choice(["dict", "list", "set"])}

    def apply(self, loader, model, desc):
        ids = desc["ids"]
        arg = {f"tk{v}_s": v for v in ids} if desc["form"] == "dict" else (list(ids) if desc["form"] == "list" else set(ids))
        loader.save_external_symbol_id_collection(desc["method"], arg)
        model.setdefault("method_id_to_external_symbol_id_collection", {})[desc["method"]] = set(ids)

    def snapshot(self, loader):
        return {"method_id_to_external_symbol_id_collection": loader.method_id_to_external_symbol_id_collection}


class UnitStmtIds(DictFam):
    name, cls = "unit_id_to_stmt_ids", "UnitIDToStmtIDLoader"

    def gen(self, rng, tok, size):
        return {"unit": rng.choice([11, 12, 13]), "lo": tok + 1, "n": max(1, size)}

    def apply(self, loader, model, desc):
        ids = list(range(desc["lo"], desc["lo"] + desc["n"]))       # contiguous: the file format stores (min, max) per unit
        loader.save(desc["unit"], ids)
        old = model.setdefault("unit_id_to_stmt_ids", {}).get(desc["unit"])
        model["unit_id_to_stmt_ids"][desc["unit"]] = ids
        m2 = model.setdefault("stmt_id_to_unit_id", {})
        for i in ids:
            m2[i] = desc["unit"]

    def snapshot(self, loader):
        cur = {i for ids in loader.unit_id_to_stmt_ids.values() for i in ids}      # see OneToMany.snapshot
        return {"unit_id_to_stmt_ids": loader.unit_id_to_stmt_ids, "stmt_id_to_unit_id": {i: u for i, u in loader.stmt_id_to_unit_id.items() if i in cur}}

    def model_snapshot(self, model):
        cur = {i for ids in model.get("unit_id_to_stmt_ids", {}).values() for i in ids}
        return {"unit_id_to_stmt_ids": model.get("unit_id_to_stmt_ids", {}),
                "stmt_id_to_unit_id": {i: u for i, u in model.get("stmt_id_to_unit_id", {}).items() if i in cur}}


DICT = None


def dict_families():
    global DICT
    if DICT is None:
        fams = [OneToMany(n, c) for n, c in [
            ("unit_id_to_method_id", "UnitIDToMethodIDLoader"), ("unit_id_to_class_id", "UnitIDToClassIDLoader"),
            ("class_id_to_stmt_id", "ClassIDToStmtIDLoader"), ("method_id_to_stmt_id", "MethodIDToStmtIDLoader"),
            ("unit_id_to_namespace_id", "UnitIDToNamespaceIDLoader"), ("unit_id_to_variable_id", "UnitIDToVariableIDLoader"),
            ("unit_id_to_import_stmt_id", "UnitIDToImportStmtIDLoader"), ("method_id_to_parameter_id", "MethodIDToParameterIDLoader"),
            ("class_id_to_method_id", "ClassIDToMethodIDLoader"), ("class_id_to_field_id", "ClassIDToFieldIDLoader")]]
        fams += [NameToIds("class_id_to_class_name", "ClassIdToNameLoader"), NameToIds("method_id_to_method_name", "MethodIDToMethodNameLoader"),
                 StmtScope(), EntryPoints(), CallGraphFam(), CallPaths(), InternalCallees(), DefUseSummary(), ExternalSymbolIds(), UnitStmtIds()]
        DICT = {f.name: f for f in fams}
    return DICT


DICT_NAMES = ["unit_id_to_method_id", "unit_id_to_class_id", "class_id_to_stmt_id", "method_id_to_stmt_id", "unit_id_to_namespace_id",
              "unit_id_to_variable_id", "unit_id_to_import_stmt_id", "method_id_to_parameter_id", "class_id_to_method_id",
              "class_id_to_field_id", "class_id_to_class_name", "method_id_to_method_name", "stmt_id_to_scope_id", "entry_points",
              "call_graph", "call_paths", "internal_callees", "def_use_summary", "external_symbol_ids", "unit_id_to_stmt_ids"]
