"""C18 - running lian never alters inputs and writes only inside its workspace.

World: a scratch root R with input trees, bystander files, optional pre-existing workspace contents and symlinks; then one
or two simulated lian processes (the REAL Lian().run(), forked from a worker that imported lian) started with a generated
command line.  Every mutating file-system event of the process passes the audit-hook seam (sim/fsseam.py) which checks the
containment invariants BEFORE the event happens, injects I/O errors and crashes (os._exit at the k-th event, followed by a
re-run on the residue), and blocks anything outside the world.  Before/after snapshots of R are the backstop.
"""
import json
import os
import shutil

from sim import fsseam, lianrun
from sim.core import canon_json, digest_hex, h64, scratch_root

PID = "C18"
RULE = ("seeded worlds: 1..3 inputs (directory trees <= 12 files, single files, matching and non-matching extensions, names containing "
        "the default workspace name, file/dir symlinks, a symlink loop), bystander files next to inputs and workspace, optional "
        "pre-existing workspace contents; command line = sub-command x -f x -w form (omitted/relative/absolute/custom name/custom name "
        "containing the default name/through a symlink) x placement (disjoint, workspace inside input, input inside workspace, "
        "identical) x cwd; fault population adds one of: I/O error on the k-th copy / write-open / mkdir, crash at the k-th mutating "
        "event followed by a second run with -f.  Non-trivial = the run hit >= 1 reach probe (a placement / flag / fault condition of interest or a completed run); distinct = distinct (knobs, op list).")
STATE_MEASURE = ("states = distinct (placement, -w form, -f, input kinds, pre-existing kind, sub-command, fault kind, outcome class) tuples; "
                 "transitions = distinct mutating-event-kind sequences (compressed) of a run")
REAL = ["lian.main.Lian (argument parsing, set_workspace_dir, init_submodules)", "lian.preparation (manage_directory, copytree_with_extension, "
        "ModuleSymbolsBuilder)", "the whole lang pipeline and loader export for sub-command lang; P1-P3 + taint for sub-command run",
        "a real tmpfs directory tree"]
STUBS = ["sys.addaudithook seam (observes, blocks escapes, injects faults)", "a 6-file --default-settings directory instead of the 2.8 MB stock rules"]
ASSUMPTIONS = [
    "the effective workspace is computed by the documented rule: -w value (default 'lian_workspace'), with '/lian_workspace' appended unless the value contains that name; relative to cwd",
    "third-party caches under the private HOME / TMPDIR of the simulated process are exempt (reported in the evidence)",
    "an error exit or an exception of lian is an outcome, not a violation: the property does not promise success",
    "native writes that bypass Python are only seen by the before/after snapshot, not per event",
]
PROBES = ["ran_to_completion", "forced_cleanup_deleted_preexisting", "refused_without_force", "workspace_inside_input", "input_inside_workspace",
          "identical_paths", "via_symlink", "default_name_coincidence", "symlink_in_input", "file_input", "multi_input",
          "fault_crash", "fault_interrupt", "fault_eio_copy", "fault_enospc_write", "fault_eacces_mkdir", "second_run_on_residue", "copied_files",
          "relative_workspace", "default_workspace", "input_via_symlinked_ancestor", "cwd_contains_default_name",
          "c_language", "c_header_preprocess", "second_run_other_project", "second_run_incremental", "spawned_subprocess", "graph_output", "javascript_language",
          "inputs_share_base_name", "input_given_with_leading_dotdots", "strict_parse_mode", "non_utf8_source_file",
          "pwd_is_start_directory", "pwd_left_over_from_launcher", "two_inputs_contain_workspace", "not_quiet", "taint_report_written", "debug_print_stmts", "workspace_below_a_src_directory", "plugin_option", "first_run_incremental", "workspace_copied_elsewhere", "input_file_deleted_between_runs", "shell_metacharacters_in_c_file_name", "second_run_names_the_workspace_copy_as_input", "workspace_option_looks_like_a_missing_value"]
# the same check again, smaller, in interpreters started with assertions stripped (python -O / PYTHONOPTIMIZE=1)
ENV_VARIANTS = [{"name": "python-O", "env": {"PYTHONOPTIMIZE": "1"}, "runs": {'quick': 250, 'thorough': 2500}}]
TIERS = {
    "quick": {"runs": 2400, "budget_s": 300, "chunk": 25, "selftest": 50, "per_run_timeout": 300},
    "thorough": {"runs": 0, "budget_s": 1500, "chunk": 50, "selftest": 100, "per_run_timeout": 300},
}
MIN_SECONDS = 40.0
MIN_TESTS = 60
DEFAULT_WS = "lian_workspace"

_M = None
_settings = None
_base = None


def setup_worker():
    global _M, _settings, _base
    root = scratch_root()
    _settings = lianrun.make_settings(os.path.join(root, f"settings-{os.getpid()}"))
    _M = lianrun.import_lian(_settings)
    _base = os.path.join(root, "c18w%07d" % (os.getpid() % 10 ** 7))
    os.makedirs(_base, exist_ok=True)


# ----------------------------------------------------------------------------- generator

PY = ["import os\nx = 1\n", "def f(a, b=2):\n    return a + b\nr = f(1)\n", "class A:\n    def m(self, p):\n        self.q = p\n        return p\n",
      "from pkg import util\nv = util.g(3)\n", "y = [1, 2, 3]\nfor i in y:\n    print(i)\n",
      # a taint flow (the parameter alpha is a source in the small settings): the taint writer has something to write
      "def handler(alpha):\n    query = alpha\n    sink(query)\n    return query\nhandler(1)\n",
      # unusual but legal files: CRLF line ends, a byte-order mark, empty, no newline at the end, one very long line, names lian
      # generates itself
      "import os\r\nx = 1\r\ndef f(a):\r\n    return a\r\n", "\ufeffx = 1\ny = x\n", "", "x = 1\ny = 2", "z = [" + ", ".join(str(i) for i in range(600)) + "]\n",
      "vv1 = 1\nunit_init = vv1\ndef unit_init_(alpha):\n    return alpha\n"]
JS = ["function f(a) { return a + 1; }\nvar r = f(2);\n", "const o = {a: 1};\no.b = o.a;\n",
      # names taken from the analysed code may contain path separators
      'const routes = {\n  "../../../../../../site/routes/index"(req) { return req; },\n  "a/b"(x) { return x; }\n};\nroutes["a/b"](1);\n',
      'class K {\n  "../../../../../../../../escape"(v) { this.v = v; return v; }\n}\nnew K()["../../../../../../../../escape"](2);\n']
CSRC = ['#include <stdio.h>\n#include "util.h"\nint add(int a, int b) {\n    return a + b;\n}\n',
        '#include "generated/config.h"\nint conf(void) {\n    return CONFIG_VALUE;\n}\n',
        'int twice(int x) {\n    int y = x * 2;\n    return y;\n}\n',
        '#include <stdlib.h>\nstatic int g;\nvoid set(int v) {\n    g = v;\n}\n']
PLUGIN_OK = ("from lian.events.handler_template import EventHandlerManager\n"
             "import lian.events.event_return as er\n"
             "class ProbePlugin(EventHandlerManager):\n"
             "    def __init__(self, event_manager):\n"
             "        super().__init__(event_manager)\n"
             "        for event in sorted(event_manager.event_handlers):\n"
             "            event_manager.register(event, self.passive, ['zz_no_such_language'])\n"
             "    def passive(self, data):\n"
             "        return er.EventHandlerReturnKind.UNPROCESSED\n")
OTHER = {"README.md": "# readme\n", "data.json": "{}\n", "notes.txt": "keep me\n", "Makefile": "all:\n"}


def gen_knobs(rng, tier):
    return {
        "population": rng.choice(["fault_free", "fault_free", "faulted"]),
        "placement": rng.choice(["disjoint", "disjoint", "ws_inside_input", "ws_inside_input", "input_inside_ws", "identical",
                                 "via_symlink", "disjoint_preexisting"]),
        "wform": rng.choice(["omitted", "relative", "absolute", "custom_contains_default", "absolute"]),
        "force": rng.random() < 0.8,
        "sub": rng.choice(["lang", "lang", "lang", "run", "semantic", "semantic"]),
        "lang": rng.choice(["python", "python", "python,javascript", "javascript", "c", "c"]),
        "graph": rng.random() < 0.35,
        "c_preprocess": rng.random() < 0.7,
        "second": rng.choice(["same_forced", "same_forced", "other_project_forced", "other_project_incremental", "other_project_incremental",
                              "moved_workspace_incremental", "own_copy_incremental"]),
        "n_inputs": rng.choice([1, 1, 2, 3]),
        "tree_files": rng.randint(1, 8),
        "symlinks": rng.random() < 0.4,
        "coincidence": rng.random() < 0.25,
        "nomock": rng.random() < 0.5,
        "cwd_in_input": rng.random() < 0.3,
        "symlinked_ancestor": rng.random() < 0.25,
        "cwd_named_like_default": rng.random() < 0.2,
        "same_basename": rng.random() < 0.2,
        "deep_cwd": rng.random() < 0.3,
        "strict": rng.random() < 0.2,
        "latin1": rng.random() < 0.25,
        # $PWD of the process: not set, the start directory, or left over from wherever the launching program was
        "pwd_env": rng.choice(["unset", "unset", "correct", "stale", "stale"]),
        "nested_inputs": rng.random() < 0.2,
        "quiet": rng.random() < 0.6,          # without -q the taint phase writes its report file
        "umask": rng.choice(["022", "022", "077", "000", "027"]),
        "w_named_like_nothing": rng.random() < 0.08,      # -w None / -w nan: a relative directory whose name looks like a missing value
        "incremental_first": rng.random() < 0.08,     # the first run is already an --incremental one (no -f) on whatever is there
        "plugin": rng.choice(["none", "none", "none", "none", "none", "none", "ok", "broken"]),   # -e <file>: loads, or raises while loading
        "debug_print": rng.random() < 0.15,   # -d -p (never quiet): debug output and statement dumps
        "ws_under_src": rng.random() < 0.2,   # the workspace below a directory that is itself called src (a checkout's src/)
        "tier": tier,
    }


def _tree(rng, k, base, ops):
    """a small source tree under base (relative to R)."""
    dirs = [base]
    for i in range(rng.randint(0, 3)):
        d = os.path.join(rng.choice(dirs), rng.choice(["pkg", "sub", "deep", "lib"]) + str(i))
        dirs.append(d)
        ops.append({"op": "mkdir", "path": d})
    for i in range(k["tree_files"]):
        d = rng.choice(dirs)
        r = rng.random()
        if k["lang"] == "c" and r < 0.75:
            name = f"m{i}.c" if r < 0.55 else (f"m{i % 2}_processed.c" if r < 0.65 else "util.h")
            if r < 0.12:
                # names the shell would read differently
                name = rng.choice(["old->new.c", "a;b.c", "$(touch pwned).c", "sp ace.c", "q'uote.c", "amp&ersand.c", "back`tick`.c", "star*.c"])
            ops.append({"op": "mkfile", "path": os.path.join(d, name),
                        "content": rng.choice(CSRC) if name.endswith(".c") else "int add(int a, int b);\n"})
            continue
        if k["lang"] == "javascript" and r < 0.7:
            ops.append({"op": "mkfile", "path": os.path.join(d, f"s{i}.js"), "content": rng.choice(JS)})
            continue
        if r < 0.6:
            ops.append({"op": "mkfile", "path": os.path.join(d, f"m{i}.py"), "content": rng.choice(PY)})
        elif r < 0.75:
            ops.append({"op": "mkfile", "path": os.path.join(d, f"s{i}.js"), "content": rng.choice(JS)})
        else:
            n = rng.choice(sorted(OTHER))
            ops.append({"op": "mkfile", "path": os.path.join(d, n), "content": OTHER[n]})
    if k["coincidence"]:
        ops.append({"op": "mkfile", "path": os.path.join(rng.choice(dirs), f"x_{DEFAULT_WS}.py"), "content": "z = 0\n"})
    if k.get("latin1"):
        # a source file in a legacy 8-bit encoding (not valid UTF-8), in the analysed language
        ext = ".c" if k["lang"] == "c" else (".js" if k["lang"] == "javascript" else ".py")
        body = {".c": "/* caf\u00e9 */\nint legacy(int a) { return a; }\n", ".js": "// caf\u00e9\nvar legacy = 'd\u00e9j\u00e0';\n",
                ".py": "# caf\u00e9\nlegacy = 'd\u00e9j\u00e0'\n"}[ext]
        ops.append({"op": "mkfile", "path": os.path.join(rng.choice(dirs), "legacy" + ext), "content": body, "encoding": "latin-1"})
    if rng.random() < 0.2:
        # names and contents that are not ASCII, a name with blanks
        ops.append({"op": "mkfile", "path": os.path.join(rng.choice(dirs), "m\u00fcn\u00ef \u540d.py"), "content": "s = '\u00e4\u540d'\n"})
        ops.append({"op": "mkfile", "path": os.path.join(rng.choice(dirs), "d\u00efr \u540d", "inner.py"), "content": "t = 1\n"})
    if k["symlinks"]:
        kind = rng.choice(["file_in", "file_out", "dir_out", "loop", "dangling"])
        d = rng.choice(dirs)
        if kind == "file_in":
            ops.append({"op": "symlink", "path": os.path.join(d, "lnk.py"), "target": "m0.py"})
        elif kind == "file_out":
            ops.append({"op": "symlink", "path": os.path.join(d, "lnk_out.py"), "target_abs": "bystander/precious.py"})
        elif kind == "dir_out":
            ops.append({"op": "symlink", "path": os.path.join(d, "lnkdir"), "target_abs": "bystander"})
        elif kind == "loop":
            ops.append({"op": "symlink", "path": os.path.join(d, "loop"), "target": "."})
        else:
            ops.append({"op": "symlink", "path": os.path.join(d, "dangling.py"), "target": "nowhere.py"})
    return dirs


def generate(rng, k):
    ops = []
    # bystanders
    ops.append({"op": "mkfile", "path": "bystander/precious.py", "content": "SECRET = 1\n"})
    ops.append({"op": "mkfile", "path": "keep.txt", "content": "root bystander\n"})
    ops.append({"op": "mkdir", "path": "cw"})
    if k.get("plugin", "none") != "none":
        ops.append({"op": "mkfile", "path": "plugins/helper_notes.txt", "content": "next to the plug-in\n"})
        ops.append({"op": "mkfile", "path": f"plugins/{DEFAULT_WS}/frontend/results_of_another_analysis.txt", "content": "keep me\n"})
        if k["plugin"] == "ok":
            ops.append({"op": "mkfile", "path": "plugins/probe_plugin.py", "content": PLUGIN_OK})
        else:
            ops.append({"op": "mkfile", "path": "plugins/probe_plugin.py", "content": "import helper_module_that_is_not_installed\n" + PLUGIN_OK})
    if k.get("pwd_env") == "stale":
        ops.append({"op": "mkfile", "path": f"elsewhere_pwd/{DEFAULT_WS}/frontend/results_of_another_analysis.txt", "content": "keep me\n"})
        ops.append({"op": "mkfile", "path": "elsewhere_pwd/outp/note.txt", "content": "keep me too\n"})
    placement = k["placement"]
    inputs = []          # path relative to R
    ws_opt = None        # value given to -w, relative to R ('' prefix handled by form)
    if placement in ("disjoint", "disjoint_preexisting", "via_symlink"):
        for i in range(k["n_inputs"]):
            if i > 0 and rng.random() < 0.4:
                p = f"in{i}.py"
                ops.append({"op": "mkfile", "path": p, "content": rng.choice(PY)})
            else:
                p = f"in{i}" if not (k["coincidence"] and i == 1) else f"in{i}_{DEFAULT_WS}_samples"
                ops.append({"op": "mkdir", "path": p})
                _tree(rng, k, p, ops)
            inputs.append(p)
        if k.get("same_basename") and not inputs[0].endswith(".py"):
            # a second directory with the SAME base name as the first input, somewhere else
            p = "other/deeper/" + os.path.basename(inputs[0])
            ops.append({"op": "mkdir", "path": p})
            _tree(rng, k, p, ops)
            inputs.append(p)
        ops.append({"op": "mkfile", "path": "outp/sibling.txt", "content": "next to the workspace\n"})
        ws_opt = "outp/wsroot"
        if k.get("ws_under_src") and placement == "disjoint":
            ops.append({"op": "mkfile", "path": "outp/src/main.c", "content": "int main(void) { return 0; }\n"})
            ws_opt = "outp/src/analysis"
        if placement == "disjoint_preexisting":
            ops.append({"op": "mkfile", "path": f"outp/wsroot/{DEFAULT_WS}/frontend/old.bundle0", "content": "old output\n"})
            ops.append({"op": "mkfile", "path": f"outp/wsroot/{DEFAULT_WS}/user_notes.txt", "content": "user file in workspace\n"})
            ops.append({"op": "mkfile", "path": "outp/wsroot/beside.txt", "content": "in the parent of the workspace\n"})
            if rng.random() < 0.5:
                ops.append({"op": "symlink", "path": f"outp/wsroot/{DEFAULT_WS}/src", "target_abs": "bystander"})
        if placement == "via_symlink":
            ops.append({"op": "mkdir", "path": "real_out"})
            ops.append({"op": "symlink", "path": "outp/wslink", "target_abs": "real_out"})
            ws_opt = "outp/wslink"
    elif placement == "ws_inside_input":
        ops.append({"op": "mkdir", "path": "in0"})
        _tree(rng, k, "in0", ops)
        inputs.append("in0")
        ws_opt = rng.choice(["in0", "in0/out", "in0"])
        if k.get("nested_inputs"):
            # two inputs that BOTH contain the workspace: a project and one of its sub-directories, or one tree named twice
            if rng.random() < 0.6:
                ops.append({"op": "mkdir", "path": "in0/sub_in"})
                _tree(rng, k, "in0/sub_in", ops)
                inputs.append("in0/sub_in")
                ws_opt = rng.choice(["in0/sub_in", "in0/sub_in/out"])
            else:
                inputs.append("in0")
    elif placement == "input_inside_ws":
        p = f"wsroot/{DEFAULT_WS}/old/proj"
        ops.append({"op": "mkdir", "path": p})
        _tree(rng, k, p, ops)
        inputs.append(p)
        ws_opt = "wsroot"
        if rng.random() < 0.5:
            ops.append({"op": "mkdir", "path": "in1"})
            _tree(rng, k, "in1", ops)
            inputs.append("in1")
    else:  # identical
        p = f"wsroot/{DEFAULT_WS}"
        ops.append({"op": "mkdir", "path": p})
        _tree(rng, k, p, ops)
        inputs.append(p)
        ws_opt = "wsroot"
    # command line
    wform = k["wform"]
    cwd = "cw"
    if k["cwd_in_input"] and inputs and not inputs[0].endswith(".py"):
        cwd = inputs[0]
    run = {"op": "run", "sub": k["sub"], "lang": k["lang"], "force": k["force"] and not k.get("incremental_first"), "cwd": cwd,
           "pwd_env": k.get("pwd_env", "unset"), "plugin": k.get("plugin", "none") != "none",
           "quiet": k.get("quiet", True) and not k.get("debug_print"), "umask": k.get("umask", "022"),
           "flags": (["--nomock"] if k["nomock"] else []) + (["-I"] if k["lang"] == "c" and k.get("c_preprocess") else [])
                    + (["--strict-parse-mode"] if k.get("strict") else [])
                    + (["-d", "-p"] if k.get("debug_print") else [])
                    + (["--incremental"] if k.get("incremental_first") else [])
                    + ((["--graph", "--enable-p2"] if k.get("graph") and k["sub"] != "lang" else []))}
    if wform == "omitted":
        # default name relative to cwd: the workspace is <cwd>/lian_workspace
        run["w"] = None
        if placement == "ws_inside_input":
            run["cwd"] = "in0"
    elif wform == "relative":
        run["w"] = {"form": "rel", "path": ws_opt}
    elif wform == "custom_contains_default":
        run["w"] = {"form": "abs", "path": ws_opt + f"/my_{DEFAULT_WS}_dir"}
    else:
        run["w"] = {"form": "abs", "path": ws_opt}
    if k.get("w_named_like_nothing") and placement == "disjoint" and run.get("cwd") == "cw":
        name_ = rng.choice(["None", "nan", "NaN", "null"])
        run["w"] = {"form": "rel", "path": "cw/" + name_}
        ops.append({"op": "mkfile", "path": f"cw/{DEFAULT_WS}/frontend/older_results_of_the_user.txt", "content": "keep me\n"})
    run["inputs"] = [{"form": rng.choice(["abs", "rel", "rel"]), "path": p} for p in inputs]
    if k.get("deep_cwd") and run["cwd"] == "cw":
        # started from a directory some levels down: relative paths begin with several ".."
        ops.append({"op": "mkdir", "path": "cw/lvl1/lvl2"})
        run["cwd"] = "cw/lvl1/lvl2"
    if k.get("symlinked_ancestor"):
        # the same inputs, named through a symlink to the world root (/x/link/proj with link -> real)
        ops.insert(len(ops), {"op": "symlink", "path": "lnkroot", "target_abs": "."})
        for i_ in run["inputs"]:
            i_["path"] = "lnkroot/" + i_["path"]
        if run.get("w") and rng.random() < 0.5:
            run["w"] = dict(run["w"], path="lnkroot/" + run["w"]["path"])
    if k.get("cwd_named_like_default") and run["cwd"] == "cw":
        ops.insert(len(ops), {"op": "mkdir", "path": f"{DEFAULT_WS}_runs"})
        ops.insert(len(ops), {"op": "mkfile", "path": f"{DEFAULT_WS}_runs/my_notes.txt", "content": "user file in the start directory\n"})
        run["cwd"] = f"{DEFAULT_WS}_runs"
        if run.get("w") and rng.random() < 0.7:
            # a relative -w value that does not itself contain the default name
            run["w"] = {"form": "rel", "path": f"{DEFAULT_WS}_runs/outdir"}
            ops.insert(len(ops), {"op": "mkfile", "path": f"{DEFAULT_WS}_runs/outdir/users_other_file.txt", "content": "must survive\n"})
    if rng.random() < 0.15 and run["inputs"]:
        run["inputs"][0]["trailing_slash"] = True
    if k["population"] == "faulted":
        fk = rng.choice(["crash_at_event", "crash_at_event", "interrupt_at_event", "eio_on_copy", "enospc_on_write", "eacces_on_mkdir"])
        if fk in ("crash_at_event", "interrupt_at_event"):
            # quick: a spread of crash points; thorough: any of the ~100-200 mutating events of a run
            run["faults"] = [{"kind": fk, "k": rng.choice([1, 2, 3, 5, 8, 13, 21, 34, 55, 80, 120]) if k.get("tier") != "thorough" else rng.randint(1, 180)}]
        else:
            run["faults"] = [{"kind": fk, "k": rng.choice([1, 1, 2, 3, 5])}]
    ops.append(run)
    want_second = (k["population"] == "faulted" and rng.random() < 0.8) or (k["population"] != "faulted" and rng.random() < 0.3)
    if want_second:
        second = dict(run)
        second.pop("faults", None)
        second["force"] = True
        if rng.random() < 0.3:
            second["sub"] = "lang"
        kind2 = k.get("second", "same_forced")
        if kind2 == "moved_workspace_incremental" and (placement != "disjoint" or not run.get("w") or run["w"].get("form") != "abs"):
            kind2 = "same_forced"
        if kind2 == "own_copy_incremental" and (placement != "disjoint" or not run.get("w") or run["w"].get("form") != "abs"
                                                or k.get("ws_under_src") or not run["inputs"] or run["inputs"][0]["path"].endswith(".py")):
            kind2 = "same_forced"
        if kind2 == "own_copy_incremental":
            # the workspace directory is a link to a directory on another disk whose path does not contain the default name; after a
            # forced run the user re-analyses "the sources" with --incremental and names the workspace's OWN copy of them
            ops[:] = [o_ for o_ in ops]
            ops.insert(0, {"op": "mkdir", "path": "bigdisk/store"})
            ops.insert(1, {"op": "symlink", "path": run["w"]["path"] + "/" + DEFAULT_WS, "target_abs": "bigdisk/store"})
            run["force"] = True
            run["flags"] = [f_ for f_ in run.get("flags", []) if f_ != "--incremental"]
            second["force"] = False
            second["flags"] = [f_ for f_ in second.get("flags", []) if f_ != "--incremental"] + ["--incremental"]
            second["inputs"] = [{"form": "abs", "path": "bigdisk/store/src/" + os.path.basename(run["inputs"][0]["path"])}]
            ops.append(second)
            return ops
        if kind2 == "moved_workspace_incremental":
            # the workspace of the first run is COPIED to another place (a backup restored elsewhere, a moved checkout), an input
            # file is deleted, and the copy is re-used with --incremental: everything the copy remembers about paths points into
            # the first workspace, which is now a bystander
            first_ws = run["w"]["path"]
            victim = next((op["path"] for op in ops if op["op"] == "mkfile" and op["path"].startswith(run["inputs"][0]["path"].replace("lnkroot/", "") + "/")
                           and op["path"].endswith((".py", ".js", ".c"))), None)
            ops.append({"op": "copy_tree", "from": first_ws, "to": "moved/" + first_ws})
            if victim:
                ops.append({"op": "rmfile", "path": victim})
            second["force"] = False
            second["flags"] = [f_ for f_ in second.get("flags", []) if f_ != "--incremental"] + ["--incremental"]
            second["w"] = {"form": "abs", "path": "moved/" + first_ws}
            ops.append(second)
            return ops
        if kind2 != "same_forced":
            # ANOTHER project with the same directory and file names but other contents goes into the same workspace
            extra = []
            for op in ops:
                if op["op"] == "mkfile" and any(op["path"] == i_["path"].replace("lnkroot/", "") or
                                                op["path"].startswith(i_["path"].replace("lnkroot/", "") + "/") for i_ in run["inputs"]):
                    extra.append({"op": "mkfile", "path": "alt/" + op["path"], "content": op["content"] + "\n/* second project */\n"
                                  if op["path"].endswith((".c", ".h", ".js")) else op["content"] + "\n# second project\n"})
            ops[-1:-1] = extra
            second["inputs"] = [dict(i_, path="alt/" + i_["path"].replace("lnkroot/", "")) for i_ in run["inputs"]]
            if kind2 == "other_project_incremental":
                second["force"] = False
                second["flags"] = list(second.get("flags", [])) + ["--incremental"]
        ops.append(second)
    return ops


# ----------------------------------------------------------------------------- executor

def _mk_world(R, ops):
    for op in ops:
        kind = op["op"]
        if kind == "mkdir":
            os.makedirs(os.path.join(R, op["path"]), exist_ok=True)
        elif kind == "mkfile":
            p = os.path.join(R, op["path"])
            os.makedirs(os.path.dirname(p), exist_ok=True)
            if os.path.isdir(p) or os.path.islink(p):
                continue
            with open(p, "w", encoding=op.get("encoding") or None) as f:
                f.write(op["content"])
        elif kind == "symlink":
            p = os.path.join(R, op["path"])
            os.makedirs(os.path.dirname(p), exist_ok=True)
            if os.path.lexists(p):
                continue
            target = os.path.join(R, op["target_abs"]) if "target_abs" in op else op["target"]
            os.symlink(target, p)


def _path_arg(R, cwd_abs, spec):
    p = os.path.join(R, spec["path"])
    if spec["form"] == "rel":
        p = os.path.relpath(p, cwd_abs)
    if spec.get("trailing_slash"):
        p += "/"
    return p


def effective_workspace(cwd_abs, w_value):
    """the documented rule (docs + main.Lian.set_workspace_dir)."""
    w = DEFAULT_WS if w_value is None else w_value
    if DEFAULT_WS not in w:
        w = os.path.join(w, DEFAULT_WS)
    return os.path.realpath(os.path.join(cwd_abs, w))


def execute(trace):
    k = trace["knobs"]
    B = os.path.join(_base, "r")
    shutil.rmtree(B, ignore_errors=True)
    R = os.path.join(B, "world")
    os.makedirs(R)
    home = os.path.join(B, "home")
    tmpd = os.path.join(B, "tmp")
    os.makedirs(home)
    os.makedirs(tmpd)
    probes = {}
    states, trans = set(), set()
    log = []
    violation = None
    faults = {}
    fired_kinds = []         # kinds of the injected faults that fired, in order, over all runs of the trace

    def hit(name, n=1):
        probes[name] = probes.get(name, 0) + n

    try:
        world_ops = [op for op in trace["ops"] if op["op"] not in ("run", "copy_tree", "rmfile")]
        runs = [op for op in trace["ops"] if op["op"] == "run"]
        _mk_world(R, world_ops)
        n_run = 0
        for step, op in enumerate(trace["ops"]):
            if op["op"] == "copy_tree" and n_run >= 1:
                src_, dst_ = os.path.join(R, op["from"]), os.path.join(R, op["to"])
                if os.path.isdir(src_) and not os.path.lexists(dst_):
                    os.makedirs(os.path.dirname(dst_), exist_ok=True)
                    shutil.copytree(src_, dst_, symlinks=True)
                    hit("workspace_copied_elsewhere")
                continue
            if op["op"] == "rmfile" and n_run >= 1:
                try:
                    os.remove(os.path.join(R, op["path"]))
                    hit("input_file_deleted_between_runs")
                except OSError:
                    pass
                continue
            if op["op"] != "run":
                continue
            n_run += 1
            cwd_abs = os.path.join(R, op["cwd"])
            if not os.path.isdir(cwd_abs):
                cwd_abs = os.path.join(R, "cw")
                os.makedirs(cwd_abs, exist_ok=True)
            w_value = None if op.get("w") is None else _path_arg(R, cwd_abs, op["w"])
            in_args = [_path_arg(R, cwd_abs, i) for i in op["inputs"]]
            W = effective_workspace(cwd_abs, w_value)
            flags_ = list(op.get("flags", []))
            if op.get("plugin") and os.path.isfile(os.path.join(R, "plugins", "probe_plugin.py")):
                flags_ += ["-e", os.path.join(R, "plugins", "probe_plugin.py")]
                hit("plugin_option")
            spec = {"sub": op["sub"], "lang": op["lang"], "force": op["force"], "workspace": w_value, "inputs": in_args,
                    "flags": flags_, "quiet": op.get("quiet", True)}
            if "--incremental" in flags_ and n_run == 1:
                hit("first_run_incremental")
            if w_value in ("None", "nan", "NaN", "null"):
                hit("workspace_option_looks_like_a_missing_value")
            if n_run == 2 and any(fsseam._inside(ir, W) for ir in [os.path.realpath(os.path.join(cwd_abs, a)) for a in in_args]) and "--incremental" in flags_:
                hit("second_run_names_the_workspace_copy_as_input")
            if not op.get("quiet", True):
                hit("not_quiet")
            if op["lang"] == "c" and any(o_["op"] == "mkfile" and any(ch in os.path.basename(o_["path"]) for ch in ">;$&`*' ") and o_["path"].endswith(".c") for o_ in world_ops):
                hit("shell_metacharacters_in_c_file_name")
            if "-p" in op.get("flags", []):
                hit("debug_print_stmts")
            if "/src/" in W[len(R):].rsplit("/" + DEFAULT_WS, 1)[0] + "/":
                hit("workspace_below_a_src_directory")
            argv = lianrun.build_argv(spec, _settings)
            before = fsseam.snapshot(R)
            input_real = [os.path.realpath(os.path.join(cwd_abs, a)) for a in in_args]
            # probes on the configuration
            for ir in input_real:
                if fsseam._inside(W, ir) and W != ir:
                    hit("workspace_inside_input")
                elif W == ir:
                    hit("identical_paths")
                elif fsseam._inside(ir, W):
                    hit("input_inside_workspace")
                if os.path.isfile(ir):
                    hit("file_input")
                if DEFAULT_WS in ir and not fsseam._inside(ir, W):
                    hit("default_name_coincidence")
            if sum(1 for ir in input_real if fsseam._inside(W, ir)) > 1:
                hit("two_inputs_contain_workspace")
            if len(in_args) > 1:
                hit("multi_input")
                bases = [os.path.basename(a.rstrip("/")) for a in in_args]
                if len(set(bases)) < len(bases):
                    hit("inputs_share_base_name")
            if any(a.startswith("../../") for a in in_args):
                hit("input_given_with_leading_dotdots")
            if "--strict-parse-mode" in op.get("flags", []):
                hit("strict_parse_mode")
            if any(o_.get("encoding") for o_ in world_ops):
                hit("non_utf8_source_file")
            if any(os.path.realpath(os.path.join(cwd_abs, a)) != os.path.abspath(os.path.join(cwd_abs, a)) for a in in_args):
                hit("input_via_symlinked_ancestor")
            if DEFAULT_WS in cwd_abs[len(R):]:
                hit("cwd_contains_default_name")
            if w_value is None:
                hit("default_workspace")
            elif not os.path.isabs(w_value):
                hit("relative_workspace")
            if os.path.realpath(os.path.join(cwd_abs, w_value or DEFAULT_WS)) != os.path.abspath(os.path.join(cwd_abs, w_value or DEFAULT_WS)):
                hit("via_symlink")
            if any(v[0] == "l" for p, v in before.items() if any(fsseam._inside(p, ir) for ir in input_real)):
                hit("symlink_in_input")
            if n_run == 2:
                hit("second_run_on_residue")
                if any("alt/" in i_["path"] for i_ in op["inputs"]):
                    hit("second_run_other_project")
                if "--incremental" in op.get("flags", []):
                    hit("second_run_incremental")
            if "--graph" in op.get("flags", []):
                hit("graph_output")
            if "javascript" in op["lang"]:
                hit("javascript_language")
            if op["lang"] == "c":
                hit("c_language")
                if "-I" in op.get("flags", []):
                    hit("c_header_preprocess")

            exts = _exts(op["lang"])
            eligible = elig_bytes = n_dirs = 0
            for p_, v_ in before.items():
                # every input is copied once: a file below two of the inputs (nested inputs, one tree named twice) counts twice
                mult = sum(1 for ir in input_real if (fsseam._inside(p_, ir) or p_ == ir))
                if not mult:
                    continue
                if v_[0] == "d":
                    n_dirs += mult
                if v_[0] == "f" and os.path.splitext(p_)[1].lower() in exts:
                    eligible += mult
                    elig_bytes += v_[1] * mult
            # directories between an input root and a workspace inside it are created by the run itself and mirrored by the copy
            ws_depth = max([len(os.path.relpath(W, ir).split(os.sep)) for ir in input_real if fsseam._inside(W, ir)] or [0])
            report_path = os.path.join(B, f"report{n_run}.json")
            stdio_path = os.path.join(B, f"stdio{n_run}.txt")
            plan = [dict(f) for f in op.get("faults", [])] if k["population"] == "faulted" else []

            # an input that lies INSIDE the workspace is also read by the --incremental backup of the previous workspace contents:
            # once by the backup, once by the copy of the inputs
            copy_factor = 2 if ("--incremental" in flags_ and any(fsseam._inside(ir, W) for ir in input_real)) else 1
            # --incremental re-uses (rewrites, backs up) the previous contents of the workspace: inside W it has the same licence as -f
            inside_ok = bool(op["force"] or "--incremental" in op.get("flags", []))

            def before_run(M, _W=W, _plan=plan, _before=before, _force=inside_ok, _rp=report_path):
                def on_die(seam):
                    with open(_rp + ".tmp", "w") as f:
                        json.dump({"status": "crashed", "detail": "", "report": _report(seam)}, f)
                    os.replace(_rp + ".tmp", _rp)
                seam = fsseam.Seam({"R": R, "W": _W, "allow": [home, tmpd], "force": _force, "preexisting": set(_before),
                                    "faults": _plan, "on_die": on_die, "max_events": 2500,
                                    "input_roots": list(input_real), "max_input_copies": eligible * copy_factor,
                                    "src_root": os.path.join(_W, "src"), "max_src_dirs": n_dirs + len(input_real) + 1 + ws_depth})
                seam.install()
                return lambda: _report(seam)

            env_ = {"HOME": home, "TMPDIR": tmpd, "MPLCONFIGDIR": os.path.join(home, "mpl")}
            pwd_kind = op.get("pwd_env", "unset")
            if pwd_kind == "correct":
                env_["PWD"] = cwd_abs
                hit("pwd_is_start_directory")
            elif pwd_kind == "stale" and os.path.isdir(os.path.join(R, "elsewhere_pwd")):
                env_["PWD"] = os.path.join(R, "elsewhere_pwd")
                hit("pwd_left_over_from_launcher")
            out = lianrun.run_forked(_M, argv, cwd_abs, report_path, stdio_path, before_run=before_run, timeout=150, env=env_,
                                     umask=int(op.get("umask", "022"), 8),
                                     unset_env=("PWD",) if pwd_kind == "unset" else ())
            rep = out.get("report") or {}
            status = out.get("status", "?")
            outcome = status.split(":")[0] if not status.startswith("exit") else status
            after = fsseam.snapshot(R)
            for f in rep.get("fired", []):
                fired_kinds.append(f[0])
                faults[f[0]] = faults.get(f[0], 0) + 1
                hit({"crash_at_event": "fault_crash", "interrupt_at_event": "fault_interrupt", "eio_on_copy": "fault_eio_copy", "enospc_on_write": "fault_enospc_write",
                     "eacces_on_mkdir": "fault_eacces_mkdir"}[f[0]])
            n_events = rep.get("n_events", 0)
            if status == "ok":
                hit("ran_to_completion")
            if os.path.isfile(os.path.join(W, "taint", "taint_data_flow.json")):
                hit("taint_report_written")
            if rep.get("counts", {}).get("shutil.copyfile"):
                hit("copied_files")
            if rep.get("counts", {}).get("spawn"):
                hit("spawned_subprocess")
            stdio = ""
            try:
                stdio = open(stdio_path, errors="replace").read()[-1500:]
            except OSError:
                pass
            if "already exists" in stdio and not op["force"]:
                hit("refused_without_force")
            # ---- I1 / I2: per-event containment (decided inside the process, before each event)
            vs = rep.get("violations", [])
            if vs and not violation:
                v0 = vs[0]
                violation = {"step": step, "cls": v0["cls"], "detail": {"run": n_run, "argv": _mask_argv(argv, R), "first": v0,
                                                                      "count": len(vs), "status": status, "W": W.replace(R, "<R>")}}
            if status in ("timeout",) and not violation:
                violation = {"step": step, "cls": "I4:run_did_not_finish", "detail": {"run": n_run, "argv": _mask_argv(argv, R), "status": status}}
            # ---- I1 (leftovers): scratch files in the process's TMPDIR are tolerated while it runs, not afterwards
            if not violation and status != "crashed":
                left = sorted(os.listdir(tmpd))
                if left:
                    violation = {"step": step, "cls": "I1:file_left_outside_workspace", "detail": {
                        "run": n_run, "argv": _mask_argv(argv, R), "status": status, "where": "$TMPDIR", "names": [n_[:40] for n_ in left[:5]], "count": len(left)}}
            # ---- I3: everything outside W (and every input file, wherever it is) is byte-identical afterwards; nothing new outside W
            if not violation:
                changed, created, deleted = [], [], []
                for p, v in before.items():
                    # input content = everything under an input, except the workspace when the workspace lies inside that input
                    is_input = any((fsseam._inside(p, ir) or p == ir) and not (fsseam._inside(W, ir) and W != ir and (fsseam._inside(p, W) or p == W))
                                   for ir in input_real)
                    if fsseam._inside(p, W) and p != W and not is_input:
                        continue
                    a = after.get(p)
                    if a is None:
                        deleted.append(p)
                    elif a != v and not (v[0] == "d" and a[0] == "d"):
                        changed.append(p)
                    elif v[0] == "d" and a[0] == "d" and v[3] != a[3]:
                        changed.append(p)
                for p in after:
                    if p not in before and not fsseam._inside(p, W) and p != W:
                        # parents of W that had to be created count as part of creating the workspace directory
                        if fsseam._inside(W, p):
                            continue
                        created.append(p)
                if deleted or changed or created:
                    cls = "I3:input_or_outside_deleted" if deleted else ("I3:input_or_outside_modified" if changed else "I3:created_outside_workspace")
                    violation = {"step": step, "cls": cls, "detail": {
                        "run": n_run, "argv": _mask_argv(argv, R), "status": status, "W": W.replace(R, "<R>"),
                        "deleted": [p.replace(R, "<R>") for p in deleted[:6]], "changed": [p.replace(R, "<R>") for p in changed[:6]],
                        "created": [p.replace(R, "<R>") for p in created[:6]], "n": [len(deleted), len(changed), len(created)]}}
            # ---- I4: bounded copy
            if not violation:
                src_root = os.path.join(W, "src")
                copies = [s for s in rep.get("copy_srcs", []) if any(fsseam._inside(s, ir) or s == ir for ir in input_real)]
                # only what THIS run put there counts (a refused or failed run leaves the residue of an earlier one in place)
                bytes_under_src = sum(v[1] for p, v in after.items() if v[0] == "f" and fsseam._inside(p, src_root) and before.get(p) != v)
                dirs_under_src = sum(1 for p, v in after.items() if v[0] == "d" and fsseam._inside(p, src_root) and p not in before)
                # header preprocessing (-I) legitimately writes _processed / .i files next to the copies: no byte bound then
                bytes_bound = elig_bytes if "-I" not in op.get("flags", []) else 10 ** 12
                if len(copies) > eligible * copy_factor or bytes_under_src > bytes_bound or dirs_under_src > n_dirs + len(input_real) + 1 + ws_depth:
                    violation = {"step": step, "cls": "I4:unbounded_copy", "detail": {
                        "run": n_run, "argv": _mask_argv(argv, R), "status": status, "detail": out.get("detail", "").replace(R, "<R>"), "W": W.replace(R, "<R>"),
                        "copies_from_inputs": len(copies), "eligible_input_files": eligible,
                        "bytes_under_src": bytes_under_src, "eligible_bytes": elig_bytes,
                        "dirs_under_src": dirs_under_src, "input_dirs": n_dirs}}
            # forced cleanup probe
            if op["force"] and any(fsseam._inside(p, W) and p not in after for p in before):
                hit("forced_cleanup_deleted_preexisting")
            # measures
            place = k["placement"]
            states.add(h64(canon_json([place, k["wform"], op["force"], k["sub"], k["symlinks"], k["coincidence"],
                                       (op.get("faults") or [{}])[0].get("kind"), outcome, n_run])))
            seqc = []
            for e in rep.get("events", []):
                if not seqc or seqc[-1] != e[1]:
                    seqc.append(e[1])
            trans.add(h64(",".join(seqc)))
            if n_events:
                probes["_events"] = probes.get("_events", 0) + n_events
            log.append([n_run, _mask_argv(argv, R), status, out.get("detail", "").replace(R, "<R>"), n_events, rep.get("counts", {}), rep.get("fired", []),
                        sorted(p.replace(R, "<R>") for p in after if p not in before)[:400]])
            if violation:
                break
    finally:
        shutil.rmtree(B, ignore_errors=True)
    ev = probes.pop("_events", 0)
    if violation is not None and isinstance(violation.get("detail"), dict):
        violation["detail"]["faults_fired"] = list(fired_kinds)
    return {"violation": violation, "probes": probes, "faults": faults, "states": states, "trans": trans,
            "steps": max(ev, 1), "log": digest_hex([log, violation]), "outcome": None,
            "extra": {"mutating_events": ev}}


def _report(seam):
    seam.active = False       # the simulated process is over: what follows is harness I/O
    return {"events": seam.events[:1500], "n_events": seam.seq, "violations": seam.violations, "fired": seam.fired,
            "counts": seam.counts, "copy_srcs": seam.copy_srcs[:3000], "spawned": seam.spawned[:20]}


def _mask_argv(argv, R):
    return [a.replace(R, "<R>").replace(_settings or "\0", "<settings>") for a in argv]


def _exts(lang):
    out = set()
    for l in lang.split(","):
        out |= {"python": {".py"}, "javascript": {".js"}, "c": {".c", ".h", ".i"}}.get(l.strip(), set())
    return out


# ----------------------------------------------------------------------------- signature / simplification

def _fired_kinds(violation):
    d = violation.get("detail", {})
    return d.get("faults_fired")


def signature(trace, violation):
    """invariant | placement | -f | --incremental | pre-existing symlink inside the workspace | fault kinds  (of the minimised trace)"""
    runs = [op for op in trace["ops"] if op["op"] == "run"]
    d = violation.get("detail", {})
    n = d.get("run") or 1
    run = runs[min(n, len(runs)) - 1] if runs else {}
    # the faults that actually FIRED before the violation (a planned fault that never fired is not part of what failed)
    fired = _fired_kinds(violation)
    fk = "+".join(fired) if fired is not None else "+".join(f["kind"] for op in runs for f in op.get("faults", []))
    inc = "--incremental" in run.get("flags", [])
    ws_link = any(op["op"] == "symlink" and "/lian_workspace/" in op["path"] + "/" for op in trace["ops"])
    return (f"{violation['cls']}|place={trace['knobs']['placement']}|force={run.get('force')}|incremental={inc}"
            f"|symlink_in_workspace={ws_link}|faults={fk}")


def simplify(trace):
    ops = trace["ops"]
    for i, op in enumerate(ops):
        if op["op"] == "run":
            if op.get("flags"):
                yield dict(trace, ops=ops[:i] + [dict(op, flags=[])] + ops[i + 1:])
            if op.get("sub") != "lang":
                yield dict(trace, ops=ops[:i] + [dict(op, sub="lang")] + ops[i + 1:])
            if op.get("lang") != "python":
                yield dict(trace, ops=ops[:i] + [dict(op, lang="python")] + ops[i + 1:])
            if op.get("faults"):
                o = dict(op)
                o.pop("faults")
                yield dict(trace, ops=ops[:i] + [o] + ops[i + 1:])
            if len(op["inputs"]) > 1:
                for j in range(len(op["inputs"])):
                    yield dict(trace, ops=ops[:i] + [dict(op, inputs=op["inputs"][:j] + op["inputs"][j + 1:])] + ops[i + 1:])
            for j, inp in enumerate(op["inputs"]):
                if inp.get("form") != "abs" or inp.get("trailing_slash"):
                    ni = {"form": "abs", "path": inp["path"]}
                    yield dict(trace, ops=ops[:i] + [dict(op, inputs=op["inputs"][:j] + [ni] + op["inputs"][j + 1:])] + ops[i + 1:])
            if op.get("cwd") != "cw":
                yield dict(trace, ops=ops[:i] + [dict(op, cwd="cw")] + ops[i + 1:])
