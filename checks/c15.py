"""C15 - every result saved through the loader is what later reads and the files return.

World A: one real loader instance (any GeneralLoader family or dict-backed loader) over a real directory on tmpfs,
driven by a seeded history of save / get / contain / export / export_indexing / full_export / restart / get_all.
The disk is behind the feather seam (sim/diskseam.py) which counts I/O and injects write/read faults.

Oracle per read: the canonical form of what get returns must equal the canonical form of the loader family's own
fault-free in-memory round trip (flatten -> table -> unflatten on a pristine instance, no caches, no files) of the
content MOST RECENTLY saved for that id, and every token embedded in the saved object must still be present.
The first half decides staleness / loss / mix-ups / file-format damage whatever the history was; the second half
decides silent loss of saved fields.  Restart = a fresh loader over the same directory.
"""
import contextlib
import io
import os
import shutil
import tempfile

from sim import diskseam, invivo
from sim.canon import canon, canon_json as cjson, tokens
from sim.core import canon_json, digest_hex, h64, scratch_root
from checks import c15_families as F

PID = "C15"
RULE = ("seeded histories (<= 40 ops, 2..5 ids) of save/get/contain/export/export_indexing/full_export/restart/get_all on one real "
        "loader per run; loader family, item- and bundle-cache capacities (1..3), config.MAX_ROWS (1..12 or 400000), content sizes "
        "and op mix are drawn per run; fault population adds <= 3 write/read faults placed inside exports, saves that export, "
        "restarts and disk reads.  Non-trivial = the run hit >= 1 reach probe (re-save then read, read served from a bundle "
        "file, save crossing MAX_ROWS, restart, fault fired, ...); distinct = distinct (knobs, op list).")
STATE_MEASURE = ("states = distinct abstract loader states (per id: never/active/exported/re-saved-over-export; item-cache and bundle-cache "
                 "key orders; restarted?; at-risk set) per family; transitions = distinct (abstract state, op kind)")
REAL = ["lian.util.loader.GeneralLoader and its concrete sub-classes", "dict-backed loaders (OneToManyMapLoader family, summaries, graphs)",
        "lian.util.data_model.DataModel/Row", "lian.util.util.LRUCache", "lian.config.schema",
        "real flatten_*/unflatten_* pairs", "real pandas/pyarrow feather encoder and decoder", "a real tmpfs directory as the disk"]
STUBS = ["pandas.DataFrame.to_feather / pandas.read_feather wrappers (serialise with the real Arrow writer first, then apply the fault plan)"]
ASSUMPTIONS = [
    "content equality is defined by sim/canon.py (blind to container type, numeric dtype, None/NaN, order of sets and graph edges)",
    "the expected value of a read is the family's own fault-free in-memory flatten/unflatten round trip of the latest save; "
    "fidelity of a flatten/unflatten pair in isolation is a pure function of the content and is only checked through token preservation",
    "restart after an incomplete export (saves after the last export, or bundles newer than the index): only 'no wrong data' is required",
    "faults are never silent: a failed write raises OSError and leaves an empty or torn file; a failed read raises OSError",
]
PROBES = ["invivo_pipeline_reads_checked", "invivo_restored_items_checked", "invivo_xprocess_items_checked", "resave_then_get", "get_from_disk", "save_crossed_max_rows", "resave_exported_item",
          "restart_clean", "restart_unclean", "multi_bundle", "item_cache_evicted", "bundle_cache_evicted",
          "absent_read", "fault_write_enospc", "fault_write_torn", "fault_read_eio", "fault_reported",
          "read_after_fault_ok", "restart_after_fault", "dict_restore", "xprocess_restart", "numpy_integer_key", "two_failed_writes_in_one_op",
          "invivo_history_run_ok", "invivo_history_ws_plain", "invivo_history_ws_symlink", "invivo_history_ws_symlink_parent", "invivo_history_ws_symlink_sub",
          "failed_save", "failed_resave_of_active_item", "mixed_kind_column_refused", "invivo_debug_run", "resave_same_object_edited_in_place"]
# the same check again, smaller, in interpreters started with assertions stripped (python -O / PYTHONOPTIMIZE=1)
ENV_VARIANTS = [{"name": "python-O", "env": {"PYTHONOPTIMIZE": "1"}, "runs": {'quick': 900, 'thorough': 9000}}]
TIERS = {
    "quick": {"runs": 8000, "budget_s": 240, "chunk": 100, "selftest": 96, "per_run_timeout": 180},
    "thorough": {"runs": 0, "budget_s": 1200, "chunk": 600, "selftest": 300, "per_run_timeout": 180},
}
MIN_SECONDS = 25.0
MIN_TESTS = 600

_config = None
_DM = None
_refs = {}
_root = None


def setup_worker():
    global _config, _DM, _root
    import warnings
    warnings.simplefilter("ignore")
    F.setup()
    from lian.config import config
    from lian.util.data_model import DataModel
    _config, _DM = config, DataModel
    invivo.worker_setup()          # imports the whole pipeline (world B) BEFORE the feather seam is installed
    diskseam.install()
    _root = os.path.join(scratch_root(), f"c15-{os.getpid()}")
    os.makedirs(_root, exist_ok=True)


# ----------------------------------------------------------------------------- generator

P_INVIVO = {"quick": 0.006, "thorough": 0.015}


def gen_knobs(rng, tier):
    if rng.random() < float(os.environ.get("VERIF_P_INVIVO") or P_INVIVO.get(tier, 0.006)):
        return {"population": "invivo", "family": "invivo"}
    if rng.random() < 0.12:
        faulted = rng.random() < 0.4
        return {"population": "dict_faulted" if faulted else "dict", "family": rng.choice(F.DICT_NAMES), "n_ops": rng.randint(3, 24),
                "max_size": rng.choice([1, 2, 4]), "w_save": rng.choice([3, 5]), "w_export": rng.choice([1, 2]), "w_restart": rng.choice([1, 2]),
                "fault_budget": rng.randint(1, 2) if faulted else 0, "tmp_fs": rng.choice(["scratch", "other"])}
    names = sorted(FAMILY_NAMES)
    fam = rng.choice(names)
    key_kind = "cs" if fam == "callee_parameter_mapping" else rng.choice(["int", "int", "hash"])
    n_ids = rng.randint(2, 5)
    if key_kind == "int":
        ids = [{"k": "int", "v": 11 + i} for i in range(n_ids)]
    elif key_kind == "hash":
        ids = [{"k": "hash", "v": [1, 10 + i, 2]} for i in range(n_ids)]
    else:
        ids = [{"k": "cs", "v": [1, 10 + i, 2 + (i % 2)]} for i in range(n_ids)]
    faulted = rng.random() < 0.35
    return {
        "population": "faulted" if faulted else "fault_free",
        "family": fam, "ids": ids,
        "icap": rng.choice([1, 1, 2, 3]), "bcap": rng.choice([1, 1, 2, 3]),
        "max_rows": rng.choice([1, 2, 3, 4, 6, 8, 12, 400000]),
        "max_size": rng.choice([1, 2, 4, 6]),
        "n_ops": rng.randint(4, 40),
        "w_save": rng.choice([3, 5]), "w_get": rng.choice([4, 8]), "w_export": rng.choice([1, 2, 3]),
        "w_restart": rng.choice([0, 1, 2]), "w_misc": rng.choice([0, 1]),
        "tmp_fs": rng.choice(["scratch", "other"]),      # the temporary directory on the workspace's file system, or on another one
        "fault_budget": rng.randint(1, 3) if faulted else 0,
        "fault_kinds": sorted(rng.sample(["write_enospc", "write_torn", "read_eio"], rng.randint(1, 3))) if faulted else [],
    }


FAMILY_NAMES = ["unit_gir", "scope_hierarchy", "unit_export_symbols", "class_id_to_members", "symbol_name_to_scope_ids",
                "scope_id_to_available_scope_ids", "symbol_name_to_decl_ids", "used_symbols", "scope_id_to_symbol_info",
                "cfg", "symbol_graph", "state_flow_graph", "symbol_bit_vector", "state_bit_vector", "stmt_status",
                "symbol_state_space", "callee_parameter_mapping", "defined_symbols", "defined_states"]


def generate(rng, k):
    if k["population"] == "invivo":
        return invivo.gen_invivo_ops(rng, subs=("run", "run", "semantic", "semantic", "lang"))     # also the front-end alone
    if k["population"].startswith("dict"):
        return generate_dict(rng, k)
    fam = F.general_families()[k["family"]]
    n_ids = len(k["ids"])
    ops = []
    saved = []          # ids saved so far (bias only)
    n_saves = 0
    last_id = None
    faults_left = k["fault_budget"]
    weights = (["save"] * k["w_save"] + ["get"] * k["w_get"] + ["exp"] * k["w_export"] + ["restart"] * k["w_restart"]
               + ["misc"] * k["w_misc"])
    for step in range(k["n_ops"]):
        kind = rng.choice(weights) if saved else "save"
        op = None
        if kind == "save":
            if saved and rng.random() < 0.55:
                i = last_id if (last_id is not None and rng.random() < 0.5) else rng.choice(saved)
            else:
                i = rng.randrange(n_ids)
            n_saves += 1
            tok = 1000 * n_saves
            size = rng.randint(1, k["max_size"]) if rng.random() > 0.08 else 0      # sometimes an item without any row
            op = {"op": "save", "id": i, "tok": tok, "desc": fam.gen(rng, tok, size)}
            if rng.random() < 0.1:
                op["npkey"] = True       # the id arrives as a numpy integer (ids read from table rows are)
            if i in saved and rng.random() < 0.2:
                op["reuse"] = True       # the caller edits the object it saved last time IN PLACE and saves that same object again
            if i not in saved:
                saved.append(i)
            last_id = i
            if rng.random() < 0.05:
                # ... followed by a save of the same id that FAILS (content the loader cannot flatten); the caller carries on
                ops.append(op)
                op = {"op": "save_bad", "id": i, "poison": rng.choice(["object", "numpy_in_rows", "none"])}
        elif kind == "get":
            r = rng.random()
            if r < 0.5 and last_id is not None:
                i = last_id
            elif r < 0.92:
                i = rng.choice(saved)
            else:
                i = rng.randrange(n_ids)
            op = {"op": "get", "id": i}
            if rng.random() < 0.1:
                op["npkey"] = True
            last_id = i
        elif kind == "exp":
            op = {"op": rng.choice(["export", "export", "export_indexing", "full_export", "full_export"])}
            if rng.random() < 0.15:
                # index written BEFORE the bundle it should describe, then again afterwards
                ops.append({"op": "export_indexing"})
                ops.append({"op": "export"})
                op = {"op": "export_indexing"}
        elif kind == "restart":
            if rng.random() < 0.7:
                ops.append({"op": "full_export"})
            op = {"op": "restart", "icap": rng.choice([1, 2, 3]), "bcap": rng.choice([1, 2, 3])}
            if rng.random() < 0.012:
                # the same restart, additionally performed by ANOTHER process under another string-hash seed
                op["xprocess_hashseed"] = rng.randrange(1, 2 ** 31)
        else:
            op = rng.choice([{"op": "contain", "id": rng.randrange(n_ids)}, {"op": "get_all"}])
        # fault placement: inside exports / saves (which may export) / restarts / reads
        if faults_left and rng.random() < 0.25:
            fk = [f for f in k["fault_kinds"]
                  if (f.startswith("write") and op["op"] in ("save", "export", "export_indexing", "full_export"))
                  or (f == "read_eio" and op["op"] in ("get", "restart", "get_all"))]
            if fk:
                op["faults"] = [{"kind": rng.choice(fk), "nth": rng.choice([0, 0, 1]), "frac": rng.choice([0.1, 0.5, 0.9]),
                                 "plain": rng.random() < 0.5}]
                if op["op"] == "full_export" and op["faults"][0]["kind"].startswith("write") and faults_left > 1 and rng.random() < 0.5:
                    # the disk fills up in the middle of an export: bundle AND index write fail, with the same error text
                    op["faults"] = [dict(op["faults"][0], nth=0, plain=True), dict(op["faults"][0], nth=1, plain=True)]
                    faults_left -= 1
                faults_left -= 1
        ops.append(op)
    return ops


# ----------------------------------------------------------------------------- executor

class Quit(Exception):
    pass


def _ref_loader(fam):
    ref = _refs.get(fam.name)
    if ref is None:
        ref = fam.make(os.path.join(_root, "ref-never-written"), 4, 4)
        _refs[fam.name] = ref
    return ref


def pure_roundtrip(fam, key, obj):
    ref = _ref_loader(fam)
    flat = ref.flatten_item_when_saving(key, obj)
    dm = _DM(flat, columns=ref.item_schema)
    return ref.unflatten_item_dataframe_when_loading(key, dm)


def npkey(key):
    """the same id as a numpy integer (only for plain ints that fit); CallSite keys stay as they are"""
    import numpy
    if isinstance(key, int) and not isinstance(key, bool) and -2 ** 62 < key < 2 ** 62:
        hit_np[0] += 1
        return numpy.int64(key)
    return key


hit_np = [0]


def _classify(res_json, i, M):
    if res_json in M["hist"].get(i, ()):
        return "stale_read"
    for j, lj in M["latest"].items():
        if j != i and lj == res_json:
            return "wrong_item"
    return "corrupt_read"


def generate_dict(rng, k):
    fam = F.dict_families()[k["family"]]
    ops = []
    n_saves = 0
    faults_left = k["fault_budget"]
    weights = ["save"] * k["w_save"] + ["export"] * k["w_export"] + ["restart"] * k["w_restart"] + ["check"]
    for _ in range(k["n_ops"]):
        kind = rng.choice(weights) if n_saves else "save"
        if kind == "save":
            n_saves += 1
            tok = 1000 * n_saves
            op = {"op": "save", "tok": tok, "desc": fam.gen(rng, tok, rng.randint(1, k["max_size"]))}
        elif kind == "restart":
            if rng.random() < 0.6:
                ops.append({"op": "export"})
            op = {"op": "restart"}
        else:
            op = {"op": kind}
        if faults_left and rng.random() < 0.3 and op["op"] in ("export", "restart"):
            op["faults"] = [{"kind": rng.choice(["write_enospc", "write_torn"]) if op["op"] == "export" else "read_eio", "nth": 0,
                             "frac": rng.choice([0.1, 0.5, 0.9])}]
            faults_left -= 1
        ops.append(op)
    return ops


def execute_dict(trace):
    """dict-backed loaders: one file, an in-memory container; the durable model is exact (the file holds what the container
    held at the last successful export)."""
    import copy
    import json as _json
    from sim.canon import canon_guided
    k = trace["knobs"]
    fam = F.dict_families()[k["family"]]
    faulted_pop = k["population"] == "dict_faulted"
    run_dir = tempfile.mkdtemp(prefix="dict-", dir=_root)
    diskseam.begin_run()
    probes, faults, log = {}, {}, []
    violation = None
    model, durable, durable_damaged = {}, None, False

    def hit(name, n=1):
        probes[name] = probes.get(name, 0) + n

    def sut(f):
        buf = io.StringIO()
        try:
            with contextlib.redirect_stdout(buf), contextlib.redirect_stderr(buf):
                return f(), buf.getvalue(), None
        except SystemExit as e:
            return None, buf.getvalue(), Quit(f"SystemExit({e.code})")
        except Exception as e:  # noqa
            return None, buf.getvalue(), e

    def same(snap, ref):
        return _json.dumps(canon_guided(snap, ref), sort_keys=True) == _json.dumps(canon(ref), sort_keys=True)

    loader = fam.make(run_dir)
    try:
        for step, op in enumerate(trace["ops"]):
            kind = op["op"]
            diskseam.begin_op(op.get("faults", []) if faulted_pop else [])
            if kind == "save":
                _, out, err = sut(lambda: fam.apply(loader, model, op["desc"]))
                diskseam.end_op()
                if err is not None:
                    violation = {"step": step, "cls": "save_failed", "detail": {"op": _short(op), "error": f"{type(err).__name__}: {str(err)[:300]}"}}
                    break
                log.append(["save"])
            elif kind == "check":
                diskseam.end_op()
                if not same(fam.snapshot(loader), fam.model_snapshot(model)):
                    violation = {"step": step, "cls": "dict_memory_mismatch", "detail": {"expected": cjson(fam.model_snapshot(model))[:600], "observed": cjson(fam.snapshot(loader))[:600]}}
                    break
                log.append(["check"])
            elif kind == "export":
                _, out, err = sut(loader.export)
                fired, nw, nr, arrow_err = diskseam.end_op()
                for fk, _p in fired:
                    hit("fault_" + fk)
                if fired or arrow_err:
                    if err is not None or out.strip():
                        hit("fault_reported")
                    else:
                        violation = {"step": step, "cls": "silent_write_failure", "detail": {"op": op, "fired": fired, "output": out}}
                        break
                    durable_damaged = True
                    if arrow_err:
                        violation = {"step": step, "cls": "unserialisable_item", "detail": {"op": op, "output": out[-400:]}}
                        break
                elif err is not None:
                    violation = {"step": step, "cls": "export_failed", "detail": {"op": op, "error": f"{type(err).__name__}: {str(err)[:300]}"}}
                    break
                elif nw:
                    durable, durable_damaged = copy.deepcopy(model), False
                log.append(["export", nw, bool(fired)])
            elif kind == "restart":
                loader = fam.make(run_dir)
                _, out, err = sut(loader.restore)
                fired, nw, nr, _ = diskseam.end_op()
                for fk, _p in fired:
                    hit("fault_" + fk)
                hit("dict_restore")
                if err is not None:
                    ok = fired or durable_damaged or (durable is None and isinstance(err, FileNotFoundError))
                    if not ok:
                        violation = {"step": step, "cls": "restore_failed", "detail": {"op": op, "error": f"{type(err).__name__}: {str(err)[:300]}"}}
                        break
                    model = {}
                    loader = fam.make(run_dir)      # a failed restore leaves nothing usable behind
                    log.append(["restart", "failed"])
                else:
                    ref = fam.model_snapshot(durable) if durable is not None else fam.model_snapshot({})
                    snap = fam.snapshot(loader)
                    if not durable_damaged and not same(snap, ref):
                        violation = {"step": step, "cls": "dict_restore_mismatch", "detail": {"expected": cjson(ref)[:700], "observed": cjson(snap)[:700]}}
                        break
                    if M_tokens_missing(ref, snap):
                        violation = {"step": step, "cls": "token_lost", "detail": {"expected": cjson(ref)[:600], "observed": cjson(snap)[:600]}}
                        break
                    model = copy.deepcopy(durable) if durable is not None else {}
                    hit("restart_clean")
                    log.append(["restart", "ok"])
    finally:
        shutil.rmtree(run_dir, ignore_errors=True)
    violation = _mask_dir(violation, run_dir)
    return {"violation": violation, "probes": probes, "faults": faults_out(probes), "states": set(), "trans": set(),
            "steps": len(trace["ops"]), "log": digest_hex([log, violation]),
            "extra": {f"family:{fam.name}": 1, "feather_writes": diskseam.STATE["total_writes"], "feather_reads": diskseam.STATE["total_reads"]}}


class _Unflattenable:
    """content no loader can flatten: no fields, no length, not iterable"""
    __slots__ = ()


def M_tokens_missing(ref, snap):
    return bool(tokens(canon(ref)) - tokens(canon(snap)))


def execute_invivo(trace):
    """world B: the items produced by real analyses, read back by the pipeline itself and by a fresh Loader.restore()."""
    from sim.core import load_known
    out, rep = invivo.run_ops(trace["ops"])
    st = rep.get("stats", {})
    probes = {}
    if st.get("c15_reads_checked"):
        probes["invivo_pipeline_reads_checked"] = st["c15_reads_checked"]
    if st.get("c15_restore_checked"):
        probes["invivo_restored_items_checked"] = st["c15_restore_checked"]
    if st.get("c15_dict_attrs_checked"):
        probes["dict_restore"] = st["c15_dict_attrs_checked"]
    if st.get("c15_xprocess_items"):
        probes["invivo_xprocess_items_checked"] = st["c15_xprocess_items"]
    for k_, v_ in st.items():
        if k_.startswith("history_") or k_ == "debug_run":
            probes["invivo_" + k_] = v_
    violation = None
    known = load_known(PID)
    cands = []
    faults = {}
    fired = rep.get("fault_fired") or []
    if fired:
        kind_ = fired[0][0]
        faults[kind_] = 1
        probes["fault_" + kind_] = 1
        # the last clause of the property, in vivo: the failed write must be reported (exception, or text on stdout/stderr)
        reported = out.get("status", "ok") != "ok" or "(injected" in out.get("stdio", "") or out.get("stdio_injected_msgs", 0) > 0
        if reported:
            probes["fault_reported"] = 1
        else:
            rep.setdefault("c15", []).insert(0, {"cls": "silent_write_failure", "loader": fired[0][1], "family": "pipeline", "id": fired[0][1],
                                                 "phase": "pipeline_export", "expected": "an exception or a message", "observed": out.get("stdio", "")[-300:]})
    for v in rep.get("c15", []):
        sig = invivo_signature(v)
        cands.append((sig in known, sig, v))
    cands.sort(key=lambda c: (c[0], c[1]))          # unknown signatures first: a known finding never masks a new one
    if cands:
        pick = 0
        if cands[0][0]:
            # only listed findings in this run: rotate so that every listed finding gets reported across a batch
            sigs = sorted({c[1] for c in cands})
            want = sigs[int(trace.get("seed", 0)) % len(sigs)]
            pick = next(i for i, c in enumerate(cands) if c[1] == want)
        _, sig, v = cands[pick]
        violation = {"step": len(trace["ops"]) - 1, "cls": "invivo:" + v["cls"], "detail": dict(v, signature=sig, run_status=out.get("status"),
                                                                                               other_signatures=sorted({c[1] for c in cands[1:]})[:10])}
    status = out.get("status", "?")
    # a pipeline that fails only because bundles were exported / evicted mid-analysis reads something else than it saved
    run = next((op for op in trace["ops"] if op["op"] == "run"), {})
    if violation is None and status != "ok" and not run.get("fault") and (run.get("max_rows", 400000) != 400000 or run.get("caps")):
        base_ops = [dict(op, max_rows=400000, caps={}, xprocess_hashseed=0) if op["op"] == "run" else op for op in trace["ops"]]
        out0, _rep0 = invivo.run_ops(base_ops)
        probes["invivo_failure_rechecked_with_stock_knobs"] = 1
        if out0.get("status") == "ok":
            where = (out.get("detail") or "").split(" @ ")[-1]
            sig = f"invivo|storage_dependent_failure|{status}|{where}"
            violation = {"step": len(trace["ops"]) - 1, "cls": "invivo:storage_dependent_failure", "detail": {
                "signature": sig, "status": status, "error": out.get("detail"), "frames": out.get("tb"),
                "max_rows": run.get("max_rows"), "caps": run.get("caps"), "with_stock_knobs": out0.get("status")}}
    log = [status, out.get("detail", ""), sorted(invivo_signature(v) for v in rep.get("c15", [])),
           st.get("c15_saves"), st.get("c15_reads_checked"), st.get("c15_restore_checked")]
    return {"violation": violation, "probes": probes, "faults": faults, "states": set(), "trans": set(),
            "steps": st.get("c15_saves", 0) + st.get("c15_reads_checked", 0), "log": digest_hex(log),
            "outcome": "invivo:" + status.split(":")[0],
            "extra": {"family:invivo": 1, "invivo_saves": st.get("c15_saves", 0), "invivo_monitor_errors": st.get("c15_monitor_errors", 0)}}


def invivo_signature(v):
    if v.get("family") == "StateFlowGraphLoader":
        return "invivo|state_flow_graph|unserialisable_item"
    if v["cls"] == "dict_restore_mismatch":
        return f"invivo|dict_restore_mismatch|{v.get('loader')}|{v.get('id')}"
    return f"invivo|{v['cls']}|{v.get('family')}|{v.get('phase')}"


def execute(trace):
    k = trace["knobs"]
    from sim.core import select_tmp
    select_tmp(k.get("tmp_fs", "scratch"))
    if k["population"] == "invivo":
        return execute_invivo(trace)
    if k["population"].startswith("dict"):
        return execute_dict(trace)
    fam = F.general_families()[k["family"]]
    keys = [F.key_of(kd) for kd in k["ids"]]
    faulted_pop = k["population"] == "faulted"
    run_dir = tempfile.mkdtemp(prefix="run-", dir=_root)
    old_max_rows = _config.MAX_ROWS
    _config.MAX_ROWS = k["max_rows"]
    diskseam.begin_run()
    probes, faults = {}, {}
    states, trans = set(), set()
    log = []
    violation = None
    M = {"latest": {}, "hist": {}, "tokens": {}, "active": set(), "index_fresh": False, "at_risk": set(),
         "index_at_risk": False, "ghost": set(), "exported": set(), "resaved_over_export": set(), "restarted": False,
         "got_since_save": {}, "faults_done": 0, "tokens_by_version": {}, "disk_at_risk": set()}

    def hit(name, n=1):
        probes[name] = probes.get(name, 0) + n

    def sut(f):
        buf = io.StringIO()
        try:
            with contextlib.redirect_stdout(buf), contextlib.redirect_stderr(buf):
                return f(), buf.getvalue(), None
        except SystemExit as e:
            return None, buf.getvalue(), Quit(f"SystemExit({e.code})")
        except Exception as e:  # noqa
            return None, buf.getvalue(), e

    def abstract_state(loader):
        per_id = []
        for i in range(len(keys)):
            if i not in M["latest"]:
                per_id.append("n")
            elif i in M["active"]:
                per_id.append("r" if i in M["resaved_over_export"] else "a")
            else:
                per_id.append("e")
        # measure only: peeks at cache internals; degrades to model-only state if they disappear
        try:
            ic = [keys.index(x) if x in keys else -1 for x in loader.item_cache.cache.keys()]
            bc = list(loader.bundle_cache.cache.keys())
        except Exception:  # noqa
            ic, bc = [], []
        return f"{''.join(per_id)}|{ic}|{bc}|{M['restarted']}|{sorted(M['at_risk'])}"

    def check_read(step, op, i, res, err, out, strict, allow_absent, phase):
        """compare one read with the model; returns violation or None."""
        if err is not None:
            if injected_read or i in M["at_risk"] or (phase == "restart" and M["index_at_risk"]):
                return None
            return {"step": step, "cls": "read_failed", "detail": {"op": op, "id": i, "phase": phase,
                                                                  "error": f"{type(err).__name__}: {str(err)[:300]}",
                                                                  "output": out[-300:]}}
        # no content at all: None, or an empty list / map / table / space / manager (every generated row carries a token)
        empty = res is None or not tokens(canon(res))
        if i in M["latest"] and empty and res is not None and cjson(res) == M["latest"][i]:
            empty = False          # the item was saved without any content and comes back exactly like that
        if i not in M["latest"]:
            if empty:
                hit("absent_read")
                return None
            if not strict or i in M["ghost"]:
                # the model lost track of this id (unclean restart or fault): any version ever saved may be visible again
                rj = cjson(res)
                if rj in M["hist"].get(i, ()):
                    M["latest"][i] = rj
                    M["tokens"][i] = M["tokens_by_version"].get(rj, set())
                    M["ghost"].discard(i)
                    return None
            return {"step": step, "cls": "phantom_item", "detail": {"op": op, "id": i, "observed": canon(res)}}
        if empty:
            if allow_absent or i in M["at_risk"] and phase == "restart":
                return "absent"
            return {"step": step, "cls": "lost_item", "detail": {"op": op, "id": i, "phase": phase,
                                                                "expected": M["latest"][i][:600], "observed": repr(res)}}
        rj = cjson(res)
        if rj != M["latest"][i]:
            if not strict and rj in M["hist"].get(i, ()):
                return "older"
            return {"step": step, "cls": _classify(rj, i, M), "detail": {"op": op, "id": i, "phase": phase,
                                                                        "expected": M["latest"][i][:800], "observed": rj[:800]}}
        missing = M["tokens"][i] - tokens(canon(res))
        if missing:
            return {"step": step, "cls": "token_lost", "detail": {"op": op, "id": i, "phase": phase, "missing": sorted(missing)[:8],
                                                                 "observed": rj[:600]}}
        return None

    def count_faults(fired):
        for fk, _path in fired:
            hit("fault_" + fk)
            M["faults_done"] += 1

    def after_writes(step, op, fired, nw, out, err, arrow_err, kind="save"):
        """bookkeeping after an op that may have written bundle / index files; returns a violation or None."""
        count_faults(fired)
        evs = diskseam.op_events()
        # classify by what the file name CONTAINS, so that a loader writing through a temporary name is understood too
        idx_ev = [e for e in evs if e[0] == "w" and ".indexing" in e[1]]
        bun_ev = [e for e in evs if e[0] == "w" and ".bundle" in e[1] and ".indexing" not in e[1]]
        b_ok = any(e[3] is None for e in bun_ev)
        b_bad = any(e[3] is not None for e in bun_ev)
        x_ok = any(e[3] is None for e in idx_ev)
        x_bad = any(e[3] is not None for e in idx_ev)
        if b_ok or b_bad:
            M["exported"] |= M["active"]
            if b_bad:
                # ids the model lost track of may still be marked 'active' in the loader's index and are swept into this bundle
                M["at_risk"] |= M["active"] | M["ghost"]
                # a loader whose index restore failed numbers its bundles from 0 again: the file just damaged may be one the
                # durable index still references for an id the model lost track of
                M["disk_at_risk"] |= M["ghost"]
                if M.get("numbering_reset"):
                    # ... or for ANY id saved before that restart: the durable index still maps it to the bundle number that was
                    # just re-used and damaged
                    M["disk_at_risk"] |= set(M["hist"])
            M["resaved_over_export"] -= M["active"]
            M["active"] = set()
            M["index_fresh"] = False
        # expectation, not observation: an export / export_indexing call that returned without a fault must have made the
        # files complete, whether or not the loader chose to write (a loader that skips a needed write is caught at restart)
        if kind in ("export", "full_export") and err is None and not b_bad and not arrow_err:
            M["exported"] |= M["active"]
            M["resaved_over_export"] -= M["active"]
            M["active"] = set()
        if (x_ok and not x_bad) or (kind in ("export_indexing", "full_export") and err is None and not x_bad and not idx_ev and not fired):
            M["index_fresh"] = True
            M["index_at_risk"] = False
            M["disk_at_risk"] = set(M["at_risk"])    # the durable index now maps these ids to a damaged bundle file
        if x_bad:
            M["index_at_risk"] = True
            M["index_fresh"] = False
        if fired or arrow_err:
            # EVERY failed write of this op must be reported: an exception ends the op, otherwise one message per failure
            n_msgs = out.count("(injected") + out.count("Conversion failed")
            reported = err is not None or (bool(out.strip()) and n_msgs >= len(fired) + (1 if arrow_err else 0))
            if reported:
                hit("fault_reported")
                if len(fired) > 1:
                    hit("two_failed_writes_in_one_op")
            else:
                return {"step": step, "cls": "silent_write_failure",
                        "detail": {"op": _short(op), "fired": fired, "arrow_errors": arrow_err, "output": out}}
        if arrow_err and M.get("mixed_saved"):
            # content with a mixed-kind column was saved on purpose: the (reported) refusal is a failed write like an injected
            # one - the bundle is damaged, its items are at risk - and not a finding about a kind of analysis result
            hit("mixed_kind_column_refused")
            return None
        if arrow_err:
            return {"step": step, "cls": "unserialisable_item",
                    "detail": {"op": _short(op), "output": out[-400:],
                               "note": "the real Arrow writer refused the bundle: saved items are not in the workspace files"}}
        return None

    loader = fam.make(run_dir, k["icap"], k["bcap"])
    last_obj = {}        # id -> the object the caller handed to save() last time
    try:
        for step, op in enumerate(trace["ops"]):
            kind = op["op"]
            plan = op.get("faults", []) if faulted_pop else []
            diskseam.begin_op(plan)
            injected_read = False
            pre_state = abstract_state(loader)
            states.add(h64(fam.name + pre_state))
            trans.add(h64(fam.name + pre_state + kind))
            if kind == "save":
                i = op["id"] % len(keys)
                key = npkey(keys[i]) if op.get("npkey") else keys[i]
                expected = cjson(pure_roundtrip(fam, key, fam.build(key, op["desc"])))
                toks = tokens(canon(fam.build(key, op["desc"])))
                was_exported = i in M["exported"] and i not in M["active"]
                obj_ = fam.build(key, op["desc"])
                prev_ = last_obj.get(i)
                if op.get("reuse") and isinstance(prev_, list) and isinstance(obj_, list) and len(prev_) == len(obj_) and prev_ \
                        and all(isinstance(a_, dict) and isinstance(b_, dict) for a_, b_ in zip(prev_, obj_)):
                    for a_, b_ in zip(prev_, obj_):
                        a_.clear()
                        a_.update(b_)
                    obj_ = prev_
                    hit("resave_same_object_edited_in_place")
                last_obj[i] = obj_
                _, out, err = sut(lambda: fam.save(loader, key, obj_))
                fired, nw, nr, arrow_err = diskseam.end_op()
                if err is not None and not fired:
                    violation = {"step": step, "cls": "save_failed", "detail": {"op": _short(op), "error": f"{type(err).__name__}: {str(err)[:300]}"}}
                    break
                if op["desc"].get("mixed"):
                    M["mixed_saved"] = True
                M["latest"][i] = expected
                M["hist"].setdefault(i, set()).add(expected)
                M["tokens"][i] = toks
                M["tokens_by_version"][expected] = toks
                M["active"].add(i)
                M["ghost"].discard(i)
                M["at_risk"].discard(i)      # a re-saved item lives in the active bundle again, away from the damaged file
                M["index_fresh"] = False
                M["got_since_save"][i] = False
                if was_exported:
                    M["resaved_over_export"].add(i)
                    hit("resave_exported_item")
                if nw:
                    hit("save_crossed_max_rows")
                v = after_writes(step, op, fired, nw, out, err, arrow_err)
                if v:
                    violation = v
                    break
                log.append(["save", i, nw])
            elif kind == "save_bad":
                i = op["id"] % len(keys)
                key = keys[i]
                bad = {"object": _Unflattenable(), "none": None}.get(op.get("poison"), _Unflattenable())
                _, out, err = sut(lambda: fam.save(loader, key, bad))
                fired, nw, nr, arrow_err = diskseam.end_op()
                if err is None:
                    # the loader took the content (a family whose flatten accepts anything): nothing the model can say about
                    # this item from here on, the run ends
                    hit("bad_content_accepted")
                    break
                # a save that raised is no save: the model is unchanged, what was saved before is still what reads return
                hit("failed_save")
                if i in M["active"]:
                    hit("failed_resave_of_active_item")
                log.append(["save_bad", i, type(err).__name__])
            elif kind in ("get", "contain"):
                i = op["id"] % len(keys)
                key = npkey(keys[i]) if op.get("npkey") else keys[i]
                if kind == "contain":
                    res, out, err = sut(lambda: fam.contain(loader, key))
                    diskseam.end_op()
                    exp = i in M["latest"]
                    if err is not None:
                        violation = {"step": step, "cls": "contain_failed", "detail": {"op": op, "error": repr(err)[:300]}}
                        break
                    if i not in M["ghost"] and bool(res) != exp:
                        violation = {"step": step, "cls": "contain_mismatch", "detail": {"op": op, "expected": exp, "observed": res}}
                        break
                    log.append(["contain", i, bool(res)])
                    continue
                res, out, err = sut(lambda: fam.get(loader, key))
                fired, nw, nr, _ = diskseam.end_op()
                injected_read = any(f[0] == "read_eio" for f in fired)
                count_faults(fired)
                if nr and not fired:
                    hit("get_from_disk")
                if i in M["latest"] and M["got_since_save"].get(i) is False and i in M["hist"] and len(M["hist"][i]) > 1:
                    hit("resave_then_get")
                v = check_read(step, _short(op), i, res, err, out, True, False, "get")
                if isinstance(v, dict):
                    violation = v
                    break
                if err is None:
                    M["got_since_save"][i] = True
                    if M["faults_done"] and i not in M["at_risk"]:
                        hit("read_after_fault_ok")
                log.append(["get", i, "err" if err is not None else ("none" if res is None else "ok"), nr])
            elif kind in ("export", "export_indexing", "full_export"):
                out_all, err = "", None
                if kind in ("export", "full_export"):
                    _, out, err = sut(loader.export)
                    out_all += out
                if err is None and kind in ("export_indexing", "full_export"):
                    _, out, err = sut(loader.export_indexing)
                    out_all += out
                fired, nw, nr, arrow_err = diskseam.end_op()
                if err is not None and not fired and not arrow_err:
                    violation = {"step": step, "cls": "export_failed", "detail": {"op": op, "error": f"{type(err).__name__}: {str(err)[:300]}"}}
                    break
                v = after_writes(step, op, fired, nw, out_all, err, arrow_err, kind)
                if v:
                    violation = v
                    break
                log.append([kind, nw])
            elif kind == "restart":
                clean = (not M["active"]) and M["index_fresh"]
                M["at_risk"] = set(M["disk_at_risk"])     # a fresh loader knows only the durable state
                loader = fam.make(run_dir, op["icap"], op["bcap"])
                _, out, err = sut(loader.restore_indexing)
                fired, nw, nr, _ = diskseam.end_op()
                count_faults(fired)
                injected_read = any(f[0] == "read_eio" for f in fired)
                if err is not None and not injected_read and not M["index_at_risk"]:
                    violation = {"step": step, "cls": "restore_failed", "detail": {"op": op, "error": f"{type(err).__name__}: {str(err)[:300]}"}}
                    break
                index_lost = err is not None or injected_read
                if index_lost:
                    M["numbering_reset"] = True      # the fresh loader starts numbering its bundle files from 0 again
                hit("restart_clean" if clean else "restart_unclean")
                if M["faults_done"]:
                    hit("restart_after_fault")
                M["restarted"] = True
                # probe every id ever saved through the public getter
                seen = []
                for i in sorted(M["hist"]):
                    diskseam.begin_op([])
                    res, out, err = sut(lambda: fam.get(loader, keys[i]))
                    diskseam.end_op()
                    strict = clean and not index_lost and i not in M["disk_at_risk"] and not M["index_at_risk"]
                    v = check_read(step, _short(op), i, res, err, out, strict, not strict, "restart")
                    if isinstance(v, dict):
                        violation = v
                        break
                    if err is not None or v == "absent" or (res is None and i in M["latest"]):
                        M["latest"].pop(i, None)
                        M["ghost"].add(i)
                        seen.append([i, "gone"])
                    elif v == "older":
                        M["latest"][i] = cjson(res)
                        M["tokens"][i] = M["tokens_by_version"].get(M["latest"][i], set())
                        seen.append([i, "older"])
                    elif i in M["latest"]:
                        seen.append([i, "ok"])
                if violation:
                    break
                if op.get("xprocess_hashseed") and not fired and not injected_read:
                    xv = xprocess_compare(fam, k, run_dir, op, keys, loader, sut)
                    hit("xprocess_restart")
                    if xv:
                        violation = {"step": step, "cls": "xprocess_mismatch", "detail": dict(xv, op=op)}
                        break
                M["active"] = set()
                M["exported"] = set(M["latest"])
                M["resaved_over_export"] = set()
                M["index_fresh"] = not index_lost
                log.append(["restart", seen])
            elif kind == "get_all":
                res, out, err = sut(loader.get_all)
                fired, nw, nr, _ = diskseam.end_op()
                count_faults(fired)
                if err is not None:
                    if not fired and not M["at_risk"]:
                        violation = {"step": step, "cls": "get_all_failed", "detail": {"op": op, "error": f"{type(err).__name__}: {str(err)[:300]}"}}
                        break
                else:
                    missing = [i for i in M["latest"] if i not in M["at_risk"] and (keys[i] not in res or res[keys[i]] is None)]
                    if missing:
                        violation = {"step": step, "cls": "get_all_missing", "detail": {"op": op, "missing_ids": missing}}
                        break
                log.append(["get_all", None if err else len(res)])
            # cache eviction probes (measure only)
            try:
                if len(M["latest"]) > len(loader.item_cache.cache) >= loader.item_cache.capacity:
                    hit("item_cache_evicted")
                if loader.bundle_count > len(loader.bundle_cache.cache) >= loader.bundle_cache.capacity:
                    hit("bundle_cache_evicted")
                if loader.bundle_count > 1:
                    hit("multi_bundle")
            except Exception:  # noqa
                pass
    finally:
        _config.MAX_ROWS = old_max_rows
        shutil.rmtree(run_dir, ignore_errors=True)

    if hit_np[0]:
        probes["numpy_integer_key"] = hit_np[0]
        hit_np[0] = 0
    violation = _mask_dir(violation, run_dir)
    return {"violation": violation, "probes": probes, "faults": faults_out(probes), "states": states, "trans": trans,
            "steps": len(trace["ops"]), "log": digest_hex([log, violation]),
            "extra": {f"family:{fam.name}": 1, "feather_writes": diskseam.STATE["total_writes"],
                      "feather_reads": diskseam.STATE["total_reads"], "arrow_conversion_errors": diskseam.STATE["arrow_errors"]}}


def xprocess_compare(fam, k, run_dir, op, keys, loader, sut):
    """the files just restored in this process are read by a fresh interpreter with another PYTHONHASHSEED; both must give
    the same answer for every id (same files, same code - only the process differs)."""
    import json as _json
    import subprocess
    from sim.core import PYTHON, VERIF_DIR, pinned_env
    spec = {"family": fam.name, "dir": run_dir, "ids": k["ids"], "icap": op["icap"], "bcap": op["bcap"], "max_rows": k["max_rows"]}
    spec_path = os.path.join(run_dir, "xproc_spec.json")
    with open(spec_path, "w") as f:
        _json.dump(spec, f)
    try:
        r = subprocess.run([PYTHON, "-B", os.path.join(VERIF_DIR, "sim", "xproc_restore.py"), spec_path],
                           env=pinned_env(hashseed=str(op["xprocess_hashseed"])), capture_output=True, text=True, timeout=300)
        other = _json.loads(r.stdout.strip().splitlines()[-1])
    except Exception as e:  # noqa
        return {"error": f"other process failed: {e!r}"}
    finally:
        try:
            os.remove(spec_path)
        except OSError:
            pass
    for i in range(len(keys)):
        res, out, err = sut(lambda: fam.get(loader, keys[i]))
        mine = f"ERR:{type(err).__name__}" if err is not None else (None if res is None else cjson(res))
        theirs = other.get(str(i))
        if mine != theirs:
            return {"id": i, "this_process": (mine or "None")[:500], "other_process": (theirs or "None")[:500],
                    "hashseed_other": op["xprocess_hashseed"]}
    return None


def _mask_dir(violation, run_dir):
    """error texts quote the scratch directory, whose name differs from process to process: never let it into logs or replays"""
    if violation is None:
        return None
    import json as _json
    return _json.loads(_json.dumps(violation, default=repr).replace(run_dir, "<D>").replace(_root, "<ROOT>"))


def faults_out(probes):
    return {k[len("fault_"):]: v for k, v in probes.items() if k in ("fault_write_enospc", "fault_write_torn", "fault_read_eio")}


def _short(op):
    o = dict(op)
    if "desc" in o:
        o["desc"] = {"rows": len(o["desc"].get("rows", []))}
    return o


# ----------------------------------------------------------------------------- signature / simplification

def _pattern(ops):
    names = {}
    out = []
    for op in ops:
        if "id" in op:
            n = names.setdefault(op["id"], "abcdefgh"[len(names) % 8])
            out.append(f"{op['op']}({n})")
        else:
            out.append(op["op"])
        if op.get("faults"):
            out[-1] += "!" + "+".join(f["kind"] for f in op["faults"])
    return ";".join(out)


def presignature(trace, violation):
    if violation["cls"].startswith("invivo:"):
        return violation["detail"].get("signature")
    if violation["cls"] == "unserialisable_item":
        return f"{trace['knobs']['family']}|unserialisable_item"
    return None


def signature(trace, violation):
    if violation["cls"].startswith("invivo:"):
        return violation["detail"].get("signature")
    if trace["knobs"]["population"].startswith("dict"):
        return f"dict|{trace['knobs']['family']}|{violation['cls']}|{_pattern(trace['ops'])}"
    if violation["cls"] == "unserialisable_item":
        return f"{trace['knobs']['family']}|unserialisable_item"
    return f"{trace['knobs']['family']}|{violation['cls']}|{_pattern(trace['ops'])}"


def simplify(trace):
    k = trace["knobs"]
    ops = trace["ops"]
    if k["population"].startswith("dict"):
        for i, op in enumerate(ops):
            if op.get("faults"):
                o = dict(op)
                o.pop("faults")
                yield dict(trace, ops=ops[:i] + [o] + ops[i + 1:])
        return
    if k["population"] == "invivo":
        for i, op in enumerate(ops):
            if op["op"] == "run":
                if op.get("flags"):
                    yield dict(trace, ops=ops[:i] + [dict(op, flags=[])] + ops[i + 1:])
                if op.get("max_rows") != 400000:
                    yield dict(trace, ops=ops[:i] + [dict(op, max_rows=400000)] + ops[i + 1:])
        return
    # fewer rows per saved item, drop fault annotations, larger caches / row limit (simpler configuration)
    for i, op in enumerate(ops):
        if op["op"] == "save" and len(op["desc"].get("rows", [])) > 1:
            rows = op["desc"]["rows"]
            yield dict(trace, ops=ops[:i] + [dict(op, desc=dict(op["desc"], rows=rows[:1]))] + ops[i + 1:])
        if op.get("faults"):
            o = dict(op)
            o.pop("faults")
            yield dict(trace, ops=ops[:i] + [o] + ops[i + 1:])
    if k["max_rows"] != 400000:
        yield dict(trace, knobs=dict(k, max_rows=400000))
    for name in ("icap", "bcap"):
        if k[name] < 3:
            yield dict(trace, knobs=dict(k, **{name: 3}))
    if k["population"] == "faulted" and not any(op.get("faults") for op in ops):
        yield dict(trace, knobs=dict(k, population="fault_free"))
