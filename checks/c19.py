"""C19 - the call-path store keeps exactly the maximal paths.

World: one real PathManager (and the PathTrie inside it), driven through its public API by a seeded
history of add / remove / exists operations.  No I/O, no clock: the environment is degenerate and
the only thing the simulator schedules is the order of client operations.  Oracle: a set model,
compared after EVERY operation (return value, stored set, trie view, membership probes).
"""
import os

from sim.core import canon_json, h64

PID = "C19"
RULE = ("seeded histories of 3..70 add/remove/exists/persist ops over call paths of length 1..4 from a 2..3 call-site alphabet, "
        "and in a quarter of the runs beyond these bounds (5..7 call sites, paths up to length 6, 8 in the thorough tier) "
        "(plus call sites with a negative id and non-CallPath arguments); generator is biased by the reference "
        "model towards prefixes/extensions/duplicates of stored and of previously removed paths.  A run is "
        "non-trivial if it hit at least one reach probe (prefix eviction, prefix rejection, add after remove, ...); "
        "distinct = distinct (knobs, op list).")
STATE_MEASURE = "states = distinct stored path sets S; transitions = distinct (|S|, relation of argument to S, op, result)"
REAL = ["lian.common_structs.PathManager", "PathTrie", "TrieNode", "CallPath", "CallSite",
        "lian.util.loader.CallPathLoader (save / export / restore through a real feather file) for the persist-and-re-seed op"]
STUBS = []
ASSUMPTIONS = ["the empty path is not generated (the property does not say whether () is a path)",
               "call-site validity = no negative caller/stmt/callee id (CallPath.has_any_negative)"]
PROBES = ["persist_bare_file_name", "invivo_debug_run", "invivo_persisted_readbacks_checked", "invivo_history_run_ok", "invivo_history_ws_symlink_sub", "invivo_p3_analyses", "invivo_second_analysis_same_process", "invivo_persisted_sets_checked", "invivo_adds", "invivo_prefix_evictions", "invivo_prefix_rejections", "prefix_eviction", "reject_prefix", "reject_dup", "reject_negative", "reject_badtype",
          "add_after_remove_same", "add_after_remove_prefix", "add_after_evict_then_remove",
          "remove_hit", "remove_miss", "branching", "numpy_ids", "persist_restore"]
# the same check again, smaller, in interpreters started with assertions stripped (python -O / PYTHONOPTIMIZE=1)
ENV_VARIANTS = [{"name": "python-O", "env": {"PYTHONOPTIMIZE": "1"}, "runs": {'quick': 4000, 'thorough': 40000}}]
TIERS = {
    "quick": {"runs": 30000, "budget_s": 180, "chunk": 500, "selftest": 200, "per_run_timeout": 300},
    "thorough": {"runs": 0, "budget_s": 900, "chunk": 2500, "selftest": 1000, "per_run_timeout": 300},
}

# the third site is the entry marker lian itself builds (CallSite(method, 0, 0)): ids equal to 0 are valid ids
SITES = [(1, 10, 2), (2, 20, 3), (3, 0, 0), (4, 40, 5), (5, 50, 4), (1, 11, 3), (2, 21, 1)]
NEG_SITES = [(-1, 10, 2), (2, -20, 3), (3, 30, -1)]
BIG = 9_300_000_000


def _site(site, k):
    """the alphabet is stored small in the trace; 'big_ids' maps it to ids of a large workspace"""
    if not k.get("big_ids"):
        return tuple(site)
    return tuple((x + BIG if x > 0 else x - BIG) if x else x for x in site)

_cs = None


def setup_worker():
    global _cs
    from sim import invivo
    invivo.worker_setup()
    import lian.common_structs as cs
    _cs = cs


# ----------------------------------------------------------------------------- reference model

class Model:
    def __init__(self):
        self.S = set()           # set of tuples of site tuples
        self.removed = []        # history (generator bias only)
        self.evicted_then = []   # paths that evicted a prefix (generator bias only)

    @staticmethod
    def valid(p):
        return all(x >= 0 for site in p for x in site)

    def relation(self, p):
        if not self.valid(p):
            return "invalid"
        if p in self.S:
            return "equal"
        for q in self.S:
            if len(q) > len(p) and q[:len(p)] == p:
                return "proper_prefix_of_stored"
        for q in self.S:
            if len(q) < len(p) and p[:len(q)] == q:
                return "extension_of_stored"
        return "new_branch"

    def add(self, p):
        rel = self.relation(p)
        if rel in ("invalid", "equal", "proper_prefix_of_stored"):
            return False, rel
        if rel == "extension_of_stored":
            for q in [q for q in self.S if len(q) < len(p) and p[:len(q)] == q]:
                self.S.discard(q)
            self.evicted_then.append(p)
        self.S.add(p)
        return True, rel

    def remove(self, p):
        if p in self.S:
            self.S.discard(p)
            self.removed.append(p)
            return True
        return False


def _t(p):
    return tuple(tuple(s) for s in p)


# ----------------------------------------------------------------------------- generator

P_INVIVO = {"quick": 0.0016, "thorough": 0.0014}


def gen_knobs(rng, tier):
    if rng.random() < float(os.environ.get("VERIF_P_INVIVO") or P_INVIVO.get(tier, 0.001)):
        return {"population": "invivo"}
    return {
        "population": "default",
        # beyond the property's own bounds (3 call sites, length 4) in a quarter of the runs: wide nodes (a method with many
        # call statements), long paths, long histories; more of them in the thorough tier
        "n_sites": rng.choice([2, 3, 3, 3, 5, 7] if tier != "thorough" else [2, 3, 3, 5, 7, 7]),
        "max_len": rng.choice([2, 3, 4, 4, 4, 6] if tier != "thorough" else [2, 3, 4, 4, 6, 8]),
        "n_ops": rng.randint(3, 25) if rng.random() < (0.92 if tier != "thorough" else 0.6) else rng.randint(26, 70),
        "w_add": rng.choice([3, 5, 8]),
        "w_remove": rng.choice([1, 2, 4]),
        "w_exists": rng.choice([0, 1, 2]),
        "p_negative": rng.choice([0.0, 0.05, 0.15]),
        "p_badtype": rng.choice([0.0, 0.03]),
        "big_ids": rng.random() < 0.3,          # ids of large workspaces (extern ids start above 10^8; int64 arithmetic wraps near 9.2e18)
        "p_numpy": rng.choice([0.0, 0.0, 0.3]),  # call sites whose ids are numpy integers (ids read from tables are)
        "persist_max_rows": rng.choice([1, 2, 3, 400000, 400000]),
        "tmp_fs": rng.choice(["scratch", "other"]),
        "persist_bare_name": rng.random() < 0.3,      # the temporary directory on the workspace's file system, or on another one
        "p_steps": rng.choice([0.0, 0.3, 0.6]),    # path objects built call by call (as the analysis does) instead of from a tuple
        "w_persist": rng.choice([0, 0, 1, 2]),      # save the stored paths through the call-path loader, export, restore, re-seed a new store
    }


def _rand_path(rng, k):
    n = rng.randint(1, k["max_len"])
    return tuple(rng.choice(SITES[:k["n_sites"]]) for _ in range(n))


def _biased_path(rng, k, m):
    """pick a path related to the model's current or past contents."""
    choice = rng.random()
    stored = sorted(m.S)
    if stored and choice < 0.25:
        q = rng.choice(stored)                      # extension of a stored path
        if len(q) < k["max_len"]:
            return q + (rng.choice(SITES[:k["n_sites"]]),)
        return q
    if stored and choice < 0.45:
        q = rng.choice(stored)                      # (proper) prefix of a stored path
        return q[:rng.randint(1, len(q))]
    if m.removed and choice < 0.70:
        q = rng.choice(m.removed)                   # removed path, or a prefix of it
        return q[:rng.randint(1, len(q))]
    if m.evicted_then and choice < 0.78:
        q = rng.choice(m.evicted_then)
        return q[:rng.randint(1, len(q))]
    return _rand_path(rng, k)


def generate(rng, k):
    if k["population"] == "invivo":
        from sim import invivo
        second = rng.random() < 0.5
        ops = invivo.gen_invivo_ops(rng, p_history=0.0 if second else 0.7)
        for op in ops:
            h = op.get("history") if op["op"] == "run" else None
            if h and rng.random() < 0.6:
                # the call-path directory of the workspace is a link to another disk, and the project has lost its calls
                h["ws"] = "symlink_sub"
                h["linked_subdirs"] = sorted(set(h.get("linked_subdirs", [])) | {"semantic_p3"})
                for f_ in ops:
                    if f_["op"] == "file" and rng.random() < 0.85:
                        f_["content"] = rng.choice(["x = 1\n", "VALUE = 2\n"])
        if second:
            # two analyses in one interpreter: each has its own store
            for op in ops:
                if op["op"] == "run":
                    op["second_analysis"] = rng.choice([True, "same_ws_cut", "same_ws_cut"]) if op.get("lang") == "python" else True
                    op["fault"] = None
                    op["history"] = None
        return ops
    m = Model()
    ops = []
    kinds = ["add"] * k["w_add"] + ["remove"] * k["w_remove"] + ["exists"] * k["w_exists"] + ["persist"] * k.get("w_persist", 0)
    for _ in range(k["n_ops"]):
        kind = rng.choice(kinds)
        if kind == "persist":
            ops.append({"op": "persist"})
            continue
        if kind == "add":
            if rng.random() < k["p_badtype"]:
                ops.append({"op": "add_badtype", "v": rng.choice(["tuple", "none", "str"])})
                continue
            p = _biased_path(rng, k, m)
            if rng.random() < k["p_negative"]:
                i = rng.randrange(len(p))
                p = p[:i] + (rng.choice(NEG_SITES),) + p[i + 1:]
            m.add(p)
            ops.append({"op": "add", "p": [list(s) for s in p]})
            if rng.random() < k.get("p_steps", 0):
                ops[-1]["style"] = "steps"
            if rng.random() < k.get("p_numpy", 0):
                ops[-1]["np"] = True
        elif kind == "remove":
            stored = sorted(m.S)
            if stored and rng.random() < 0.75:
                p = rng.choice(stored)
            else:
                p = _biased_path(rng, k, m)
            m.remove(p)
            ops.append({"op": "remove", "p": [list(s) for s in p]})
            if rng.random() < k.get("p_steps", 0):
                ops[-1]["style"] = "steps"
        else:
            p = _biased_path(rng, k, m)
            ops.append({"op": "exists", "p": [list(s) for s in p]})
            if rng.random() < k.get("p_steps", 0):
                ops[-1]["style"] = "steps"
    return ops


# ----------------------------------------------------------------------------- executor + oracle

def _mk(p, k=None, np_ids=False, style="tuple"):
    """style: how the path object comes into being - "tuple" (CallPath(tuple), what a restore and most callers do),
    "steps" (an empty path extended call by call with add_callsite / add_call, what the analysis does)"""
    k = k or {}
    if style == "steps" and not np_ids:
        cp = _cs.CallPath()
        for i_, s in enumerate(p):
            cp = cp.add_call(*_site(s, k)) if i_ % 2 else cp.add_callsite(_cs.CallSite(*_site(s, k)))
        return cp
    if np_ids:
        import numpy
        return _cs.CallPath(tuple(_cs.CallSite(*[numpy.int64(x) for x in _site(s, k)]) for s in p))
    return _cs.CallPath(tuple(_cs.CallSite(*_site(s, k)) for s in p))


def _unsite(t, k):
    """view of a stored call site back in the small alphabet of the trace"""
    if not k.get("big_ids"):
        return tuple(int(x) for x in t)
    return tuple((int(x) - BIG if x > 0 else int(x) + BIG) if x else 0 for x in t)


_K = [{}]


def _view(paths):
    """stored set of the real object -> list of tuples of site tuples in the alphabet of the trace (duplicates kept)."""
    out = []
    for cp in paths:
        out.append(tuple(_unsite(cs.to_tuple(), _K[0]) for cs in cp.path))
    return out


def execute_invivo(trace):
    """the PathManager that P3 creates during a real analysis, fed with P3's own add/remove sequence."""
    from sim import invivo
    from sim.core import digest_hex
    out, rep = invivo.run_ops(trace["ops"])
    st = rep.get("stats", {})
    probes = {}
    if st.get("c19_adds"):
        probes["invivo_adds"] = st["c19_adds"]
    if st.get("c19_rel_extension_of_stored"):
        probes["invivo_prefix_evictions"] = st["c19_rel_extension_of_stored"]
    if st.get("c19_rel_proper_prefix_of_stored"):
        probes["invivo_prefix_rejections"] = st["c19_rel_proper_prefix_of_stored"]
    if st.get("c19_analyses_started"):
        probes["invivo_p3_analyses"] = st["c19_analyses_started"]
        if st["c19_analyses_started"] > 1:
            probes["invivo_second_analysis_same_process"] = 1
    if st.get("c19_readbacks_checked"):
        probes["invivo_persisted_readbacks_checked"] = st["c19_readbacks_checked"]
    for k_, v_ in st.items():
        if k_.startswith("history_") or k_ == "debug_run":
            probes["invivo_" + k_] = v_
    if st.get("c19_persisted_sets_checked"):
        probes["invivo_persisted_sets_checked"] = st["c19_persisted_sets_checked"]
    vs = rep.get("c19", [])
    violation = None
    if vs:
        violation = {"step": len(trace["ops"]) - 1, "cls": "invivo:" + vs[0]["cls"], "detail": dict(vs[0], count=len(vs), run_status=out.get("status"))}
    log = [out.get("status"), out.get("status2"), out.get("detail", ""), st.get("c19_adds"), st.get("c19_removes"), [v["cls"] for v in vs]]
    return {"violation": violation, "probes": probes, "states": set(), "trans": set(), "steps": st.get("c19_adds", 0) + st.get("c19_removes", 0),
            "log": digest_hex(log), "extra": {"invivo_monitor_errors": st.get("c19_monitor_errors", 0)}}


def execute(trace):
    k = trace["knobs"]
    if k.get("population") == "invivo":
        return execute_invivo(trace)
    _K[0] = k
    import os
    import shutil
    import tempfile
    from sim.core import scratch_root
    persist_dir = None
    # the bundle row limit is read at call time by the storage layer: small values make a persisted table "big"
    from lian.config import config as _cfg
    _cfg.MAX_ROWS = int(k.get("persist_max_rows", 400000))
    from sim.core import select_tmp
    select_tmp(k.get("tmp_fs", "scratch"))
    pm = _cs.PathManager()
    m = Model()
    probes = {}
    states, trans = set(), set()
    log = []
    violation = None
    removed_hist = set()
    evict_ext = set()
    persist_loader = [None]

    def hit(name):
        probes[name] = probes.get(name, 0) + 1

    def fail(step, cls, expected, observed, op):
        return {"step": step, "cls": cls, "detail": {"op": op, "expected": expected, "observed": observed,
                                                      "model_S": sorted(m.S)}}

    for step, op in enumerate(trace["ops"]):
        kind = op["op"]
        obs = None
        try:
            if kind == "add_badtype":
                arg = {"tuple": ((1, 10, 2),), "none": None, "str": "abc"}[op["v"]]
                import io, contextlib
                with contextlib.redirect_stdout(io.StringIO()), contextlib.redirect_stderr(io.StringIO()):
                    obs = pm.add_path(arg)
                hit("reject_badtype")
                if obs is not False:
                    violation = fail(step, "add_return", False, obs, op)
            elif kind == "add":
                p = _t(op["p"])
                size_before = len(m.S)
                exp, rel = m.add(p)
                obs = pm.add_path(_mk(p, k, op.get("np"), style=op.get("style", "tuple")))
                if op.get("np"):
                    hit("numpy_ids")
                trans.add(h64(f"{min(size_before, 4)}|{rel}|add|{exp}"))
                if rel == "extension_of_stored":
                    hit("prefix_eviction")
                    evict_ext.add(p)
                elif rel == "proper_prefix_of_stored":
                    hit("reject_prefix")
                elif rel == "equal":
                    hit("reject_dup")
                elif rel == "invalid":
                    hit("reject_negative")
                if exp and p in removed_hist:
                    hit("add_after_remove_same")
                if exp and any(len(q) > len(p) and q[:len(p)] == p for q in removed_hist):
                    hit("add_after_remove_prefix")
                    if any(len(q) > len(p) and q[:len(p)] == p for q in removed_hist & evict_ext):
                        hit("add_after_evict_then_remove")
                if bool(obs) != exp or not isinstance(obs, bool):
                    violation = fail(step, "add_return", exp, obs, op)
            elif kind == "remove":
                p = _t(op["p"])
                size_before = len(m.S)
                exp = m.remove(p)
                obs = pm.remove_path(_mk(p, k, style=op.get("style", "tuple")))
                trans.add(h64(f"{min(size_before, 4)}|{'in' if exp else 'out'}|remove|{exp}"))
                if exp:
                    hit("remove_hit")
                    removed_hist.add(p)
                else:
                    hit("remove_miss")
                if bool(obs) != exp:
                    violation = fail(step, "remove_return", exp, obs, op)
            elif kind == "exists":
                p = _t(op["p"])
                exp = p in m.S
                obs = pm.path_exists(_mk(p, k, style=op.get("style", "tuple")))
                if bool(obs) != exp:
                    violation = fail(step, "exists", exp, obs, op)
            elif kind == "persist":
                if m.S:
                    # what P3 does at the end of a run and what a later run does with the result: save the stored paths through
                    # the call-path loader, export, restore into a FRESH loader, re-seed a new store and go on
                    import lian.util.loader as L
                    if persist_dir is None:
                        persist_dir = tempfile.mkdtemp(prefix="c19-", dir=scratch_root())
                    f_ = os.path.join(persist_dir, "call_path")
                    cwd0 = None
                    if k.get("persist_bare_name"):
                        # the loader is given a bare file name, relative to the current directory
                        cwd0 = os.getcwd()
                        os.chdir(persist_dir)
                        f_ = "call_path"
                        hit("persist_bare_file_name")
                    ld = persist_loader[0] or L.CallPathLoader(f_)
                    persist_loader[0] = ld
                    import io, contextlib
                    try:
                        with contextlib.redirect_stdout(io.StringIO()), contextlib.redirect_stderr(io.StringIO()):
                            ld.save(set(pm.paths))
                            ld.export()
                            ld2 = L.CallPathLoader(f_)
                            ld2.restore()
                    finally:
                        if cwd0 is not None:
                            os.chdir(cwd0)
                    pm = _cs.PathManager()
                    restored = sorted(ld2.all_paths, key=lambda cp: (len(cp.path), [tuple(int(x) for x in cs_.to_tuple()) for cs_ in cp.path]))
                    for cp in restored:
                        pm.add_path(cp)
                    hit("persist_restore")
                    obs = len(restored)
        except Exception as e:  # noqa - the API must not raise on these arguments
            violation = fail(step, "exception", "no exception", f"{type(e).__name__}: {e}", op)
        if violation:
            break
        # ---- invariants after every step
        view = _view(pm.paths)
        tview = _view(pm.trie.paths) if hasattr(pm, "trie") and hasattr(pm.trie, "paths") else view
        if len(view) != len(set(view)):
            violation = fail(step, "duplicate_stored", sorted(m.S), sorted(view), op)
        elif set(view) != m.S:
            violation = fail(step, "paths_mismatch", sorted(m.S), sorted(set(view)), op)
        elif set(tview) != m.S:
            violation = fail(step, "trie_paths_mismatch", sorted(m.S), sorted(set(tview)), op)
        else:
            if "p" in op:
                p = _t(op["p"])
                probeset = [p[:i] for i in range(1, len(p) + 1)]
                probeset += [p + (s,) for s in SITES[:k["n_sites"]]]
                for q in probeset:
                    if not m.valid(q):
                        continue
                    if bool(pm.path_exists(_mk(q, k))) != (q in m.S):
                        violation = fail(step, "exists_after", q in m.S, not (q in m.S),
                                         {"after": op, "probe": [list(s) for s in q]})
                        break
        if violation:
            break
        if len({q[0] for q in m.S}) > 1 or len(m.S) > 1:
            hit("branching")
        states.add(h64(canon_json(sorted(m.S))))
        log.append([kind, obs if isinstance(obs, (bool, type(None))) else repr(obs), len(view)])
    from sim.core import digest_hex
    _cfg.MAX_ROWS = 400000
    if persist_dir:
        shutil.rmtree(persist_dir, ignore_errors=True)
    return {"violation": violation, "probes": probes, "states": states, "trans": trans,
            "steps": len(trace["ops"]), "log": digest_hex([log, violation])}


# ----------------------------------------------------------------------------- signature / simplification

def _rename(ops):
    """rename call sites by first occurrence so a signature does not depend on which sites were drawn."""
    names = {}
    out = []
    for op in ops:
        if "p" in op:
            s = ""
            for site in op["p"]:
                key = tuple(site)
                neg = any(x < 0 for x in key)
                if key not in names:
                    names[key] = ("N" if neg else "") + "abcdefghij"[len(names) % 10]
                s += names[key]
            out.append(f"{op['op']}({s})")
        else:
            out.append(op["op"])
    return ";".join(out)


def signature(trace, violation):
    if violation["cls"].startswith("invivo:"):
        return violation["cls"]
    return f"{violation['cls']}:{_rename(trace['ops'])}"


def simplify(trace):
    """candidates: shorten a path by one site; replace a site by the first site of the alphabet."""
    ops = trace["ops"]
    if trace["knobs"].get("population") == "invivo":
        return
    for i, op in enumerate(ops):
        if "p" not in op:
            continue
        p = op["p"]
        if len(p) > 1:
            for j in range(len(p)):
                q = p[:j] + p[j + 1:]
                # apply the same edit consistently to every op that carries the same path
                new_ops = [dict(o, p=q) if o.get("p") == p else o for o in ops]
                yield dict(trace, ops=new_ops)
