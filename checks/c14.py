"""C14 - analysis output is a deterministic function of the input.

World: one project (generated Python, or files from the repository's own corpora in several languages) and one option set,
analysed by the REAL lian pipeline in several SEPARATE fresh interpreters ("variants").  The simulator owns every source
of environment nondeterminism and moves them one or several at a time:
  string-hash order (PYTHONHASHSEED), heap layout (ASLR off + seeded allocation pad), directory-entry order (wrapped
  os.scandir/os.listdir), workspace location (same path, sibling of different length, other file system, relative,
  through a symlink) and machine history (earlier separate processes - same project, another project, another project
  that crashed mid-way - writing into the same workspace path before a forced run).
Oracle: every variant must have the same outcome record and the same workspace digest as the first one
(raw bytes when the workspace path is the same, decoded contents with the path masked otherwise).
"""
import json
import time
import os
import random
import shutil
import subprocess
import tempfile

from sim import lianrun, projgen
from sim.core import PYTHON, REPO_DIR, REPO_SRC, VERIF_DIR, canon_json, digest_hex, h64, pinned_env, scratch_root

PID = "C14"
RULE = ("seeded trials: a generated Python project (1..4 modules; named, default and packed arguments, classes, dict/list literals, "
        "closures, imports, source/sink calls) or 1..3 files from the repository corpora (python, javascript, java, go, c, php, typescript), "
        "an option set (lang/semantic/run, --enable-p2, --nomock, --graph) and 2..4 variants, each a fresh interpreter with its own "
        "PYTHONHASHSEED, heap pad, directory-entry order, workspace location and machine history.  Non-trivial = the baseline produced "
        ">= 1 non-empty analysis table; distinct = distinct (knobs, op list).")
STATE_MEASURE = ("states = distinct (project digest, option set, perturbed-dimension set) triples; transitions = distinct baseline output digests")
REAL = ["the whole lian pipeline (lian.main.Lian().run(): workspace preparation, tree-sitter front-ends, GIR, P1/P2/P3, taint, loader export) "
        "in a fresh CPython process per variant"]
STUBS = ["os.scandir/os.listdir order wrappers in the child", "a 6-file --default-settings directory (stock rules in a small fraction of thorough runs)",
         "setarch -R (ASLR off) around every variant"]
ASSUMPTIONS = [
    "several analyses inside ONE interpreter are not compared: the property speaks of separate processes",
    "files are compared as raw bytes when the workspace path is identical, and as decoded feather rows / text with the workspace path masked otherwise",
    "a front-end crash or error exit is an outcome and is compared like any other",
]
PROBES = ["nonempty_tables", "hashseed_varied", "dirent_varied", "heap_varied", "clock_varied", "env_varied", "env_ascii_locale", "install_via_symlink", "concurrent_process", "concurrent_context_switches", "stdout_reader_gone", "c_header_preprocessing", "optional_packages_hidden", "small_machine", "big_project", "legacy_encoded_source", "ws_sibling", "ws_otherfs", "ws_relative", "ws_symlink",
          "cwd_varied", "pyopt_varied", "ws_symlink_inner", "ws_named_externs", "ws_named_src", "ws_named_default", "ws_named_glob", "ws_named_braces", "ws_named_unit", "ws_symlink_sub", "history_other_settings",
          "history_same_project", "history_other_project", "history_crashed_run", "multi_file_project", "corpus_project",
          "generated_project", "sub_run", "sub_semantic", "taint_phase_ran", "baseline_completed", "baseline_ended_early", "not_quiet", "taint_report_written"]
# the same check again, smaller, in interpreters started with assertions stripped (python -O / PYTHONOPTIMIZE=1)
ENV_VARIANTS = [{"name": "python-O", "env": {"PYTHONOPTIMIZE": "1"}, "runs": {'quick': 5, 'thorough': 60}}]
TIERS = {
    "quick": {"runs": 81, "budget_s": 420, "chunk": 1, "selftest": 6, "per_run_timeout": 900},
    "thorough": {"runs": 0, "budget_s": 1800, "chunk": 1, "selftest": 12, "per_run_timeout": 900},
}
MIN_SECONDS = 150.0
MIN_TESTS = 40
MIN_PER_CLS = 2

CORPORA = [("dataflows/python", ".py", "python"), ("dataflows/javascript", ".js", "javascript"), ("dataflows/java", ".java", "java"),
           ("dataflows/c", ".c", "c"), ("lang_parser/python", ".py", "python"), ("lang_parser/javascript", ".js", "javascript"),
           ("lang_parser/java", ".java", "java"), ("lang_parser/go", ".go", "go"), ("lang_parser/c", ".c", "c"),
           ("lang_parser/php", ".php", "php"), ("control_flows", ".py", "python"), ("state_flows", ".py", "python"),
           ("import/python", ".py", "python"), ("import/js", ".js", "javascript"),
           # real-world code (vendored projects of the CVE cases) and the remaining front-ends
           ("real_cases", ".py", "python"), ("real_cases", ".py", "python"), ("real_cases", ".java", "java"),
           ("lang_parser/ruby", ".rb", "ruby"), ("lang_parser/llvm", ".ll", "llvm"), ("lang_parser/typescript", ".ts", "typescript"),
           ("lang_parser/c_sharp", ".cs", "csharp"), ("lang_parser/smali", ".smali", "smali"), ("motivativing_examples", ".py", "python"),
           ("apply_summary_tests", ".py", "python"), ("import/php", ".php", "php"), ("import/java", ".java", "java"),
           ("preprocessor", ".c", "c"), ("preprocessor", ".c", "c"), ("dataflows/c", ".c", "c")]
if os.environ.get("VERIF_C14_ONLY"):
    # exploration aid (never set by the registered commands): restrict the corpus population to matching directories
    CORPORA = [c for c in CORPORA if os.environ["VERIF_C14_ONLY"] in c[0]] or CORPORA

_settings = None
_base = None
_setarch = None
_corpus_cache = {}


def setup_worker():
    global _settings, _base, _setarch
    root = scratch_root()
    _settings = lianrun.make_settings(os.path.join(root, f"settings14-{os.getpid()}"))
    _base = os.path.join(root, "c14w%07d" % (os.getpid() % 10 ** 7))
    os.makedirs(_base, exist_ok=True)
    _setarch = shutil.which("setarch")
    if _setarch:
        try:
            subprocess.run([_setarch, "x86_64", "-R", "/bin/true"], check=True, capture_output=True, timeout=20)
        except Exception:  # noqa
            _setarch = None


# ----------------------------------------------------------------------------- generator

def _corpus_files(sub, ext):
    key = (sub, ext)
    if key not in _corpus_cache:
        d = os.path.join(REPO_DIR, "tests", sub)
        out = []
        for root, dirs, files in os.walk(d):
            dirs.sort()
            for fn in sorted(files):
                p = os.path.join(root, fn)
                if fn.endswith(ext) and os.path.getsize(p) < 6000:
                    out.append(p)
        _corpus_cache[key] = out
    return _corpus_cache[key]


def gen_knobs(rng, tier):
    source = rng.choice(["generated", "generated", "corpus"])
    if os.environ.get("VERIF_C14_ONLY"):
        source = "corpus"
    return {
        "population": source,
        "sub": rng.choice(["run", "run", "semantic", "lang"]),
        "flags": sorted(set(rng.sample(["--enable-p2", "--nomock", "--graph", "--nomock"], rng.randint(0, 2)))),
        "n_modules": rng.choice([1, 1, 2, 3, 4]),
        "size": rng.choice([2, 4, 6, 8]),
        "n_variants": rng.choice([2, 2, 3, 3]),
        "stock_settings": tier == "thorough" and rng.random() < 0.03,
        # without -q the taint phase writes its report (taint/taint_data_flow.json) when it finds a flow
        "quiet": rng.random() < 0.4,
    }


SIMULATED_TIME = ("lian has no timers and, on the pinned tree, reads no clock; the clock is nevertheless a seam: in the `clock` dimension the "
                  "analysing interpreter's time module answers from a simulated clock (frozen, 0.5 s, 10 min or 1 h per look); "
                  "extra.clock_reads_under_simulated_clock / extra.simulated_clock_seconds say how often it was read and how much simulated "
                  "time passed in those runs")
STRATIFY = True
WS_KINDS = ["sibling", "otherfs", "relative", "symlink", "symlink_inner", "named_externs", "named_src", "named_default", "named_glob", "symlink_sub", "named_braces", "named_unit"]
ENV_SETS = [{"TZ": "Asia/Tokyo"}, {"TZ": "America/St_Johns", "COLUMNS": "40", "LINES": "10", "TERM": "dumb", "NO_COLOR": "1"},
            {"LC_ALL": "C", "LANG": "C"}, {"LC_ALL": "", "LANG": "", "LC_CTYPE": "C.UTF-8"}, {"PYTHONIOENCODING": "latin-1:replace"},
            {"_umask": "077"}, {"_umask": "000", "TERM": "xterm-256color", "FORCE_COLOR": "1"}, {"_close_stdin": "1"},
            {"PYTHONUNBUFFERED": "1", "PYTHONFAULTHANDLER": "1"}, {"USER": "someone", "LOGNAME": "someone", "SHELL": "/bin/false"},
            # the build-tool variables of whoever starts lian, and a standard output whose reader has gone away (lian ... | head -1)
            {"CC": "gcc", "CXX": "g++", "CFLAGS": "-O2 -DNDEBUG", "CPPFLAGS": "-DFROM_ENV=1"}, {"_stdout": "closed_pipe"}, {"_stdout": "closed_pipe"},
            # what is installed on the machine (optional packages an import may or may not find), and how big the machine is
            {"_hide_modules": "charset_normalizer,chardet,cchardet,ujson,orjson,simplejson,psutil,numexpr,bottleneck,colorama,tqdm,rich"},
            {"_hide_modules": "charset_normalizer,chardet,cchardet,ujson,orjson,simplejson,psutil,numexpr,bottleneck,colorama,tqdm,rich"},
            {"_small_machine": "1"}, {"_small_machine": "1"}]
# the sets that stand for whole classes of machines come first: the first variant of the env-forced trials takes them in turn
# (positions 1 and 4 of the turn belong to the big-project trials, which run on the small machine)
ENV_SETS.sort(key=lambda e_: 0 if "_hide_modules" in e_ else 1 if "_small_machine" in e_ else 2 if "_stdout" in e_ else 3 if "CC" in e_ else
              4 if "TZ" in e_ and len(e_) == 1 else 5 if "PYTHONIOENCODING" in e_ else 6 if e_.get("LC_ALL") == "C" else 7)
_seen_env = []
ENV_SETS = [e_ for e_ in ENV_SETS if not (e_ in _seen_env or _seen_env.append(e_))]        # without duplicates, order kept
HIST_CYCLE = [{"proj": "B"}, {"proj": "A"}, {"proj": "B"}, {"proj": "B", "crash_at": 15}, {"proj": "B", "settings": "alt"}]
DIM_CYCLE = ["ws", "hashseed", "history", "ws", "dirent", "pyopt", "ws", "heap", "cwd", "clock", "env", "install", "concurrent"]


def _gen_variant(rng, baseline, forced_dim=None, forced_ws=None):
    v = dict(baseline)
    dims = rng.sample(["hashseed", "dirent", "heap", "ws", "history", "cwd", "pyopt", "clock", "env", "install", "concurrent"], rng.choice([1, 1, 1, 2, 3]))
    if forced_dim and forced_dim not in dims:
        dims.append(forced_dim)         # stratification: every dimension (and every workspace location) turns up regularly
    if "pyopt" in dims:
        v["pyopt"] = rng.choice([1, 1, 2])      # the analysing interpreter started with -O / -OO
    if "concurrent" in dims:
        # another lian process analyses the other project on the same machine AT THE SAME TIME (own workspace, same temporary
        # directory, same home, same settings); the interleaving of their file-system events is decided by this seed
        v["concurrent"] = {"seed": rng.randrange(1, 2 ** 31), "other": rng.choice(["B", "B", "A_elsewhere"])}
    if "install" in dims:
        v["install"] = "symlink"          # lian itself imported through a symlinked directory (/opt/lian -> /opt/lian-1.4)
    if "env" in dims:
        # the rest of the process environment: time zone, terminal geometry and colours, locale spellings that still mean
        # UTF-8, the encoding of the console streams, the umask, a closed standard input
        v["env"] = rng.choice(ENV_SETS)
    if "clock" in dims:
        # simulated time: an hour passes between any two looks at a clock (a slow or loaded machine, a huge project), ten
        # minutes, or time stands still
        v["clock"] = rng.choice(["jump:3600", "jump:3600", "jump:600", "frozen", "step:0.5"])
    if "cwd" in dims:
        v["cwd"] = rng.choice(["elsewhere", "project"])       # where the process is started from (all paths stay absolute)
    if "hashseed" in dims or rng.random() < 0.5:
        v["hashseed"] = rng.randrange(1, 2 ** 32 - 1)
    if "dirent" in dims:
        v["dirent"] = rng.choice(["reversed", "sorted", f"shuffle:{rng.randrange(1000)}"])
    if "heap" in dims:
        v["heap_pad"] = rng.choice([1, 17, 1000, 4099])
    if "ws" in dims:
        v["ws"] = forced_ws or rng.choice(WS_KINDS)
        if v["ws"] == "symlink_sub":
            # single output directories of the workspace are links to another disk, and another project was analysed before
            v["history"] = [{"proj": "B"}]
        if v["ws"] == "symlink_inner":
            # the workspace directory itself is a link (results kept elsewhere) and another project was analysed into it before
            v["history"] = [{"proj": "B"}] + ([{"proj": "A"}] if rng.random() < 0.3 else [])
    if "history" in dims:
        v["history"] = [rng.choice([{"proj": "A"}, {"proj": "A"}, {"proj": "B"}, {"proj": "B", "crash_at": rng.choice([3, 15, 40, 90])},
                                    {"proj": "B", "settings": "alt"}])
                        for _ in range(rng.choice([1, 1, 2]))]
    return v


def generate(rng, k):
    ops = []
    lang = "python"
    if k["population"] == "generated":
        # runs that vary the directory-entry order get sibling units whose names collide modulo case (half of them)
        fd0 = DIM_CYCLE[k.get("run_index", 0) % len(DIM_CYCLE)]
        shape = "case_collision" if fd0 == "dirent" and (k.get("run_index", 0) // len(DIM_CYCLE)) % 2 == 0 else None
        files = projgen.gen_project(rng, k["n_modules"], k["size"], shape=shape)
        if fd0 == "env" and (k.get("run_index", 0) // len(DIM_CYCLE)) % 3 == 1:
            # a project big enough to cross lian's size thresholds (> 10^4 GIR rows), front-end only
            for g_ in range(14):
                for p_, c_ in projgen.gen_project(rng, 4, 8).items():
                    files[f"part{g_}/{p_}"] = c_
            k["_big"] = True
        if fd0 == "env":
            # runs that vary the process environment: a flow whose report contains non-ASCII text although the source is ASCII
            first_ = sorted(files)[0]
            files[first_] += "\ndef flow_env(alpha):\n    iota = alpha\n    sink(iota, \"\\xc3\\xa9\")\n    return iota\nflow_env(1)\n"
        for p in sorted(files):
            ops.append({"op": "file", "path": p, "content": files[p]})
    else:
        sub, ext, lang = rng.choice(CORPORA)
        cands = _corpus_files(sub, ext)
        if not cands:
            ops.append({"op": "file", "path": "a.py", "content": "x = 1\n"})
            lang = "python"
        else:
            for j, p in enumerate(rng.sample(cands, min(len(cands), rng.choice([1, 1, 2, 3])))):
                try:
                    content = open(p, encoding="utf-8", errors="replace").read()
                except OSError:
                    continue
                name = os.path.basename(p) if j == 0 or rng.random() < 0.6 else os.path.join("sub", os.path.basename(p))
                ops.append({"op": "file", "path": name, "content": content})
    # stratified special shapes, for generated and corpus projects alike (Python only)
    ri_ = k.get("run_index", 0)
    fd_ = DIM_CYCLE[ri_ % len(DIM_CYCLE)]
    if lang == "python":
        if fd_ == "dirent" and (ri_ // len(DIM_CYCLE)) % 2 == 0 and not any(op["path"].endswith("codec.py") for op in ops):
            # sibling units whose names differ only in case: their numbering must not follow the directory-entry order
            ops.append({"op": "file", "path": "Codec.py", "content": "def encode(alpha):\n    return alpha\n"})
            ops.append({"op": "file", "path": "codec.py", "content": "def decode(beta):\n    sink(beta)\n    return beta\n"})
        if fd_ == "ws":
            # specially named locations: code with `%` expressions (a path component must not be mistaken for one)
            ops.append({"op": "file", "path": "modulo_mod.py", "content": "def modfn(alpha, beta=3):\n    gamma = alpha%beta + alpha % 3\n    return 'slot%d' % gamma\nmodfn(7)\n"})
    other = projgen.gen_project(rng, 1, 2)
    first_other = sorted(other)[0]
    other[first_other] += "\ndef tainted_entry(alpha):\n    eta = alpha\n    sink(eta)\n    return eta\ntainted_entry(1)\n"     # a taint flow
    for p in sorted(other):
        ops.append({"op": "otherfile", "path": p, "content": other[p]})
    ri = k.get("run_index", 0)
    lang_op = {"op": "lang", "lang": lang}
    if lang == "c" and rng.random() < 0.7:
        lang_op["c_preprocess"] = True      # -I: headers are preprocessed by the C compiler found on the machine
    if DIM_CYCLE[ri % len(DIM_CYCLE)] == "history":
        lang_op["quiet"] = False          # runs that vary the machine's history: with the report files of a non-quiet run
        lang_op["sub"] = "run"            # ... of the whole pipeline, taint phase included
    if DIM_CYCLE[ri % len(DIM_CYCLE)] == "ws" and WS_KINDS[(ri // 3) % len(WS_KINDS)] == "otherfs":
        lang_op["quiet"] = False          # the workspace on another file system than the temporary directory: all report files
        lang_op["sub"] = "run"
    ops.append(lang_op)
    baseline = {"op": "variant", "hashseed": 0, "dirent": "natural", "heap_pad": 0, "ws": "same", "history": [], "clock": "natural", "env": {}, "install": "plain", "concurrent": None}
    ops.append(baseline)
    c_env_pending = bool(lang_op.get("c_preprocess"))
    legacy_pending = any(os.path.basename(op["path"]).startswith("cp1251_") for op in ops if op["op"] == "file")
    if k.pop("_big", False):
        lang_op["sub"] = "lang"
        lang_op["big"] = True
    all_ascii = all(op["content"].isascii() and op["path"].isascii() for op in ops if op["op"] in ("file", "otherfile"))
    if k.get("stock_settings"):
        all_ascii = False      # the stock settings files themselves are not ASCII, and lian reads them with the locale's encoding too
    for j in range(k["n_variants"] - 1):
        if j == 0:
            fd = DIM_CYCLE[ri % len(DIM_CYCLE)]
            v_ = _gen_variant(rng, baseline, fd, WS_KINDS[(ri // 3) % len(WS_KINDS)] if fd == "ws" else None)
            if fd == "dirent" and (ri // len(DIM_CYCLE)) % 2 == 0:
                v_["dirent"] = "reversed"          # an order that certainly differs from the natural one
            if fd == "history":
                # the kinds of history in turn: another project, the same project, a crashed run, other rules in the settings
                v_["history"] = [dict(HIST_CYCLE[(ri // len(DIM_CYCLE)) % len(HIST_CYCLE)])] + v_["history"][1:]
                if "crash_at" in v_["history"][0]:
                    v_["history"][0]["crash_at"] = rng.choice([3, 15, 40, 90])
            ops.append(v_)
        else:
            ops.append(_gen_variant(rng, baseline))
        if c_env_pending and j == k["n_variants"] - 2:
            # header preprocessing: one variant runs with the build-tool variables of another tool chain
            ops[-1]["env"] = {"CC": "gcc", "CXX": "g++", "CFLAGS": "-O2 -DNDEBUG", "CPPFLAGS": "-DFROM_ENV=1"}
            c_env_pending = False
        if j == 0 and DIM_CYCLE[ri % len(DIM_CYCLE)] == "env":
            ops[-1]["env"] = dict(ENV_SETS[(ri // len(DIM_CYCLE)) % len(ENV_SETS)])        # the environment sets in turn
        if lang_op.get("big") and j == 0:
            ops[-1]["env"] = {"_small_machine": "1"}
        if legacy_pending and j == k["n_variants"] - 2 and not lang_op.get("big"):
            # a source in a legacy encoding: one variant runs on a machine without the optional charset-detection packages
            ops[-1]["env"] = {"_hide_modules": "charset_normalizer,chardet,cchardet"}
            legacy_pending = False
        forced_ascii = j == 0 and DIM_CYCLE[ri % len(DIM_CYCLE)] == "env" and (ri // len(DIM_CYCLE)) % 7 == 6
        if all_ascii and "env" in ops[-1] and ops[-1]["env"] and (rng.random() < 0.5 or forced_ascii):
            # a locale whose default text encoding is ASCII - only for projects that are pure ASCII themselves, because lian
            # decodes sources with the locale's encoding (see DESIGN, limits); the console keeps UTF-8
            ops[-1]["env"] = {"LC_ALL": "POSIX", "LANG": "POSIX", "PYTHONUTF8": "0", "PYTHONCOERCECLOCALE": "0", "PYTHONIOENCODING": "utf-8"}
            lang_op["quiet"] = False          # with all report files, written by the whole pipeline
            lang_op["sub"] = "run"
    return ops


# ----------------------------------------------------------------------------- executor

def _write_project(d, files):
    os.makedirs(d, exist_ok=True)
    for op in files:
        p = os.path.join(d, op["path"])
        os.makedirs(os.path.dirname(p), exist_ok=True)
        enc = "cp1251" if os.path.basename(p).startswith("cp1251_") else "utf-8"      # a source file in a legacy 8-bit encoding
        with open(p, "w", encoding=enc) as f:
            f.write(op["content"])


def _run_child(B, n, spec, hashseed, pyopt=0, prepare_only=False):
    trial_path = os.path.join(B, f"trial{n}.json")
    out_path = os.path.join(B, f"out{n}.json")
    for p in (out_path, out_path + ".stdio"):
        if os.path.exists(p):
            os.remove(p)
    with open(trial_path, "w") as f:
        json.dump(spec, f)
    cmd = [PYTHON, "-B", os.path.join(VERIF_DIR, "sim", "sim_child.py"), trial_path, out_path]
    if _setarch:
        cmd = [_setarch, "x86_64", "-R"] + cmd
    env = pinned_env(hashseed=str(hashseed))
    if pyopt:
        env["PYTHONOPTIMIZE"] = str(pyopt)
    env["HOME"] = os.path.join(B, "home")
    env["MPLCONFIGDIR"] = os.path.join(B, "home", "mpl")
    if spec.get("install") == "symlink":
        from sim.core import REPO_DIR
        link = os.path.join(B, "opt_lian")
        if not os.path.lexists(link):
            os.symlink(REPO_DIR, link)
        env["PYTHONPATH"] = os.path.join(link, os.path.basename(REPO_SRC.rstrip("/"))) + os.pathsep + VERIF_DIR
    for name_, val_ in (spec.get("env") or {}).items():
        if name_.startswith("_"):
            continue                      # applied inside the child (umask, closed stdin)
        if val_ == "":
            env.pop(name_, None)
        else:
            env[name_] = val_
    if os.path.isdir(os.path.join(B, "tmp")):
        env["TMPDIR"] = os.path.join(B, "tmp")       # the temporary directory of the simulated machine (survives between its runs)
    os.makedirs(env["HOME"], exist_ok=True)
    if prepare_only:
        return cmd, env, out_path
    try:
        r = subprocess.run(cmd, env=env, capture_output=True, text=True, timeout=600, cwd=B)
    except subprocess.TimeoutExpired:
        return {"status": "timeout", "detail": "", "stdio_sha": "", "files": {}}
    if os.path.exists(out_path):
        return json.load(open(out_path))
    return {"status": f"died:{r.returncode}", "detail": (r.stderr or "")[-300:].replace(B, "<B>"), "stdio_sha": "", "files": {}}


def _run_pair(B, n1, spec1, n2, spec2, hashseed, pyopt, sched_seed):
    """Two lian processes on one simulated machine AT THE SAME TIME, interleaved by a seeded scheduler at the granularity of
    mutating file-system events: each child parks in its audit hook before every such event (it writes one byte to its
    'ready' pipe and waits for one byte on its 'go' pipe); the scheduler waits until every live child is parked or has
    exited and then releases exactly one of them, chosen by the PRNG.  One seed = one interleaving.
    -> (record of the first child, record of the second child, number of scheduling decisions, number of context switches)"""
    import random
    import select
    kids = []
    for n, spec in ((n1, spec1), (n2, spec2)):
        ready_r, ready_w = os.pipe()
        go_r, go_w = os.pipe()
        cmd, env, out_path = _run_child(B, n, dict(spec, sched_fds=[ready_w, go_r]), hashseed, pyopt, prepare_only=True)
        proc = subprocess.Popen(cmd, env=env, stdout=subprocess.DEVNULL, stderr=subprocess.PIPE, cwd=B, pass_fds=(ready_w, go_r))
        os.close(ready_w)
        os.close(go_r)
        kids.append({"proc": proc, "ready_r": ready_r, "go_w": go_w, "out": out_path, "parked": False, "alive": True})
    rng = random.Random(sched_seed)
    decisions = switches = 0
    picks = []                 # the interleaving: which process was released at each decision
    last = None
    deadline = time.time() + 600
    burst = 0
    while any(k_["alive"] for k_ in kids) and time.time() < deadline:
        # wait until every live child is parked (or gone)
        for k_ in kids:
            while k_["alive"] and not k_["parked"] and time.time() < deadline:
                r_, _, _ = select.select([k_["ready_r"]], [], [], 1.0)
                if r_:
                    b_ = os.read(k_["ready_r"], 1)
                    if b_:
                        k_["parked"] = True
                    else:
                        k_["alive"] = False          # EOF: the child has exited (or closed its end)
        parked = [i for i, k_ in enumerate(kids) if k_["alive"] and k_["parked"]]
        if not parked:
            continue
        # seeded choice with bursts: stay with the same child for a while, or switch
        if last in parked and burst > 0:
            pick = last
            burst -= 1
        else:
            pick = rng.choice(parked)
            burst = rng.choice([0, 0, 1, 3, 8, 30])
        decisions += 1
        picks.append(pick)
        if last is not None and pick != last:
            switches += 1
        last = pick
        kids[pick]["parked"] = False
        try:
            os.write(kids[pick]["go_w"], b"g")
        except OSError:
            kids[pick]["alive"] = False
    recs = []
    for k_ in kids:
        try:
            k_["proc"].wait(timeout=30)
        except subprocess.TimeoutExpired:
            k_["proc"].kill()
        err = ""
        try:
            err = (k_["proc"].stderr.read() or b"").decode(errors="replace")[-300:]
        except Exception:  # noqa
            pass
        for fd in (k_["ready_r"], k_["go_w"]):
            try:
                os.close(fd)
            except OSError:
                pass
        if os.path.exists(k_["out"]):
            recs.append(json.load(open(k_["out"])))
        else:
            recs.append({"status": f"died:{k_['proc'].returncode}", "detail": err.replace(B, "<B>"), "stdio_sha": "", "files": {}})
    recs[0]["interleaving"] = h64("".join(str(x) for x in picks))
    return recs[0], recs[1], decisions, switches


def execute(trace):
    k = trace["knobs"]
    B = os.path.join(_base, "t")
    shutil.rmtree(B, ignore_errors=True)
    os.makedirs(B)
    extra_dirs = []
    probes = {}
    states, trans = set(), set()
    log = []
    violation = None

    def hit(name, n=1):
        probes[name] = probes.get(name, 0) + n

    try:
        files = [op for op in trace["ops"] if op["op"] == "file"]
        other = [op for op in trace["ops"] if op["op"] == "otherfile"]
        lang = next((op["lang"] for op in trace["ops"] if op["op"] == "lang"), "python")
        quiet = next((op["quiet"] for op in trace["ops"] if op["op"] == "lang" and "quiet" in op), k.get("quiet", True))
        if any(op.get("big") for op in trace["ops"] if op["op"] == "lang"):
            hit("big_project")
        if any(os.path.basename(f_["path"]).startswith("cp1251_") for f_ in files):
            hit("legacy_encoded_source")
        c_preprocess = any(op.get("c_preprocess") for op in trace["ops"] if op["op"] == "lang")
        if c_preprocess:
            hit("c_header_preprocessing")
        sub_forced = next((op["sub"] for op in trace["ops"] if op["op"] == "lang" and "sub" in op), None)
        if sub_forced and k["sub"] != sub_forced:
            k = dict(k, sub=sub_forced)
        variants = [(i, op) for i, op in enumerate(trace["ops"]) if op["op"] == "variant"]
        if not files or len(variants) < 2:
            return {"violation": None, "probes": {}, "states": set(), "trans": set(), "steps": 0, "log": digest_hex("trivial")}
        projA, projB = os.path.join(B, "projA"), os.path.join(B, "projB")
        # the settings directory of this simulated machine: a copy (time stamps kept) of the worker's
        run_settings = os.path.join(B, "settings")
        shutil.copytree(_settings, run_settings)
        os.makedirs(os.path.join(B, "tmp"), exist_ok=True)
        _write_project(projA, files)
        _write_project(projB, other or [{"path": "o.py", "content": "o = 1\n"}])
        hit("generated_project" if k["population"] == "generated" else "corpus_project")
        if len(files) > 1:
            hit("multi_file_project")
        if k["sub"] == "run":
            hit("sub_run")
        elif k["sub"] == "semantic":
            hit("sub_semantic")
        proj_digest = h64(canon_json([[f["path"], f["content"]] for f in files]))
        base_rec, base_v = None, None
        n_child = 0
        sched = [0]                   # scheduling decisions taken for concurrent pairs
        clock_reads = [0, 0.0]        # clock reads and simulated seconds of the children that ran under the simulated clock
        for step, v in variants:
            # ---- workspace location of this variant
            wsk = v.get("ws", "same")
            cwd = B
            if v.get("cwd") and wsk != "relative":
                cwd = {"elsewhere": os.path.join(B, "some", "other", "start_dir"), "project": os.path.join(B, "projA")}[v["cwd"]]
                os.makedirs(cwd, exist_ok=True)
            if wsk == "same":
                w_arg = os.path.join(B, "ws_same")
            elif wsk == "sibling":
                w_arg = os.path.join(B, "ws_sibling_with_a_rather_longer_directory_name_0123456789")
            elif wsk == "otherfs":
                base = os.environ.get("LIAN_SIM_OTHER_FS") or "/tmp"        # the machine's own temporary directory: another file system than the scratch
                try:
                    d = tempfile.mkdtemp(prefix="lian-sim-c14-", dir=base)
                    extra_dirs.append(d)
                    w_arg = os.path.join(d, "ws")
                except OSError:
                    w_arg = os.path.join(B, "ws_fallback")
            elif wsk == "relative":
                w_arg = "ws_rel"
            elif wsk == "symlink_inner":
                w_arg = os.path.join(B, "ws_inner")
                os.makedirs(w_arg, exist_ok=True)
                os.makedirs(os.path.join(B, "ws_inner_target"), exist_ok=True)
                if not os.path.lexists(os.path.join(w_arg, "lian_workspace")):
                    os.symlink(os.path.join(B, "ws_inner_target"), os.path.join(w_arg, "lian_workspace"))
            elif wsk == "symlink_sub":
                w_arg = os.path.join(B, "ws_sub")
                for n_ in ("semantic_p1", "semantic_p2", "semantic_p3"):
                    os.makedirs(os.path.join(B, "ws_sub_targets", n_), exist_ok=True)
                    os.makedirs(os.path.join(w_arg, "lian_workspace"), exist_ok=True)
                    if not os.path.lexists(os.path.join(w_arg, "lian_workspace", n_)):
                        os.symlink(os.path.join(B, "ws_sub_targets", n_), os.path.join(w_arg, "lian_workspace", n_))
            elif wsk.startswith("named_"):
                # a location whose path contains a name lian itself uses for something, or characters with a meaning elsewhere
                w_arg = os.path.join(B, {"named_externs": "externs", "named_src": "src", "named_default": "old_lian_workspace_runs",
                                         "named_glob": "run[1] *?x", "named_braces": "tmpl_{{cookiecutter.project}}_%s_$HOME",
                                         "named_unit": "cache_of_main_mod.py.d"}[wsk], "ws")
            else:
                real = os.path.join(B, "ws_real_target")
                os.makedirs(real, exist_ok=True)
                link = os.path.join(B, "wslink")
                if not os.path.lexists(link):
                    os.symlink(real, link)
                w_arg = link
            w_abs = os.path.realpath(os.path.join(cwd, w_arg))
            appended = "lian_workspace" not in w_arg      # the documented rule: the default name is appended unless the value contains it
            W = os.path.join(w_abs, "lian_workspace") if appended else w_abs
            if wsk == "symlink_sub":
                W_real = W
            elif os.path.islink(W):
                for n_ in os.listdir(W):      # keep the link, empty what it points to
                    p_ = os.path.join(W, n_)
                    shutil.rmtree(p_, ignore_errors=True) if os.path.isdir(p_) and not os.path.islink(p_) else os.remove(p_)
                W_real = os.path.realpath(W)
            else:
                shutil.rmtree(W, ignore_errors=True)
                W_real = W
            # the workspace path as lian sees it (not resolved, possibly relative) and as it really is
            seen_abs = os.path.join(os.path.abspath(os.path.join(cwd, w_arg)), "lian_workspace") if appended else os.path.abspath(os.path.join(cwd, w_arg))
            seen_arg = os.path.join(w_arg, "lian_workspace") if appended else w_arg
            mk = {W: "<W>", W_real: "<W>", seen_abs: "<W>"}
            for p_ in (w_abs, os.path.abspath(os.path.join(cwd, w_arg))):
                mk.setdefault(p_, "<WP>")        # the -w directory; when lian uses it as the workspace itself it is already <W>
            masks = sorted(mk.items(), key=lambda kv: -len(kv[0]))
            masks = [list(m) for m in masks]
            if not os.path.isabs(w_arg):
                masks.append([seen_arg, "<W>"])
            masks.append([B, "<B>"])

            def spec_for(proj, crash_at=None):
                argv = lianrun.build_argv({"sub": k["sub"], "lang": lang, "force": True, "workspace": w_arg, "quiet": quiet,
                                           "inputs": [proj], "flags": k["flags"] + (["-I"] if c_preprocess else []),
                                           "stock_settings": k.get("stock_settings")}, run_settings)
                return {"argv": argv, "cwd": cwd, "dirent": v.get("dirent", "natural"), "heap_pad": v.get("heap_pad", 0), "clock": v.get("clock", "natural"), "env": v.get("env") or {}, "install": v.get("install") or "plain",
                        "settings": run_settings, "stock_settings": k.get("stock_settings", False), "ws": W, "mask": masks,
                        "crash_at": crash_at}
            # ---- machine history: earlier separate processes into the same workspace path
            for h in v.get("history", []):
                n_child += 1
                if h.get("settings") == "alt" and not k.get("stock_settings"):
                    # the other project was analysed with other rules in the same settings files; afterwards the files are put
                    # back as they were, time stamps included (cp -p, rsync -t, a re-pointed link)
                    with open(os.path.join(run_settings, "entry.yaml"), "w") as f_:
                        f_.write('- method_list: ["%unit_init", "helper", "run"]\n')
                    with open(os.path.join(run_settings, "source.yaml"), "w") as f_:
                        f_.write(lianrun.SETTINGS_FILES["source.yaml"].replace("name: source", "name: helper"))
                    hit("history_other_settings")
                _run_child(B, n_child, spec_for(projA if h["proj"] == "A" else projB, h.get("crash_at")), v.get("hashseed", 0), v.get("pyopt", 0))
                if h.get("settings") == "alt" and not k.get("stock_settings"):
                    for n_ in ("entry.yaml", "source.yaml"):
                        shutil.copy2(os.path.join(_settings, n_), os.path.join(run_settings, n_))
                hit({"A": "history_same_project", "B": "history_crashed_run" if h.get("crash_at") else "history_other_project"}[h["proj"]])
            if (v.get("env") or {}).get("_stdout") == "closed_pipe" and base_rec is not None and base_rec.get("stdio_len", 0) > 3000:
                # a process that prints more than its console buffer holds fails on a closed pipe whatever it is; only runs
                # whose whole output fits into the buffer are comparable
                hit("closed_pipe_variant_skipped_long_output")
                continue
            if (v.get("env") or {}).get("_stdout") == "closed_pipe":
                hit("stdout_reader_gone")
            n_child += 1
            if v.get("concurrent"):
                cc = v["concurrent"]
                other_spec = spec_for(projB if cc.get("other", "B") == "B" else projA)
                w_other = os.path.join(B, "ws_of_the_other_process")
                other_spec["argv"] = [w_other if a_ == w_arg else a_ for a_ in other_spec["argv"]]
                other_spec["ws"] = os.path.join(w_other, "lian_workspace")
                n_child += 1
                rec, rec_other, n_dec, n_sw = _run_pair(B, n_child - 1, spec_for(projA), n_child, other_spec, v.get("hashseed", 0), v.get("pyopt", 0), cc["seed"])
                hit("concurrent_process")
                log.append(["interleaving", n_dec, n_sw, rec.get("interleaving"), rec_other.get("status")])
                hit("concurrent_context_switches", n_sw)
                sched[0] += n_dec
            else:
                rec = _run_child(B, n_child, spec_for(projA), v.get("hashseed", 0), v.get("pyopt", 0))
            if rec.get("clock"):
                clock_reads[0] += rec["clock"]["reads"]
                clock_reads[1] += rec["clock"]["simulated_seconds"]
            if base_rec is None:
                base_rec, base_v = rec, v
                tables = [f for f, d in rec["files"].items() if d[3] > 0 and f.split(os.sep)[0] not in ("src", "externs")]
                if tables:
                    hit("nonempty_tables")
                hit("baseline_completed" if rec["status"] == "ok" else "baseline_ended_early")
                if not quiet:
                    hit("not_quiet")
                if any(f.replace(os.sep, "/") == "taint/taint_data_flow.json" for f in rec["files"]):
                    hit("taint_report_written")
                if any(f.startswith("taint") for f in rec["files"]) or "taint" in rec.get("stdio_tail", "").lower():
                    hit("taint_phase_ran")
                trans.add(h64(canon_json(sorted((f, d[1]) for f, d in rec["files"].items()))))
                log.append(["baseline", rec["status"], rec["detail"], len(rec["files"]), len(tables)])
                continue
            # ---- which dimensions differ from the baseline
            dims = []
            if v.get("hashseed", 0) != base_v.get("hashseed", 0):
                dims.append("hashseed")
                hit("hashseed_varied")
            if v.get("dirent", "natural") != base_v.get("dirent", "natural"):
                dims.append("dirent")
                hit("dirent_varied")
            if v.get("heap_pad", 0) != base_v.get("heap_pad", 0):
                dims.append("heap")
                hit("heap_varied")
            if v.get("clock", "natural") != base_v.get("clock", "natural"):
                dims.append("clock")
                hit("clock_varied")
            if (v.get("env") or {}) != (base_v.get("env") or {}):
                dims.append("env")
                hit("env_varied")
                if (v.get("env") or {}).get("PYTHONUTF8") == "0":
                    hit("env_ascii_locale")
            if (v.get("env") or {}).get("_hide_modules"):
                hit("optional_packages_hidden")
            if (v.get("env") or {}).get("_small_machine"):
                hit("small_machine")
            if (v.get("install") or "plain") != (base_v.get("install") or "plain"):
                dims.append("install")
                hit("install_via_symlink")
            if v.get("concurrent"):
                dims.append("concurrent")
            if wsk != base_v.get("ws", "same"):
                dims.append("ws")
                hit("ws_" + wsk)
            if v.get("history", []) != base_v.get("history", []):
                dims.append("history")
            if v.get("pyopt", 0) != base_v.get("pyopt", 0):
                dims.append("pyopt")
                hit("pyopt_varied")
            if v.get("cwd") != base_v.get("cwd") and wsk != "relative":
                dims.append("cwd")
                hit("cwd_varied")
            states.add(h64(f"{proj_digest}|{k['sub']}|{k['flags']}|{dims}"))
            same_path = wsk == base_v.get("ws", "same")
            col = 0 if same_path else 1
            diff_files = []
            allf = sorted(set(rec["files"]) | set(base_rec["files"]))
            for f in allf:
                a, b = base_rec["files"].get(f), rec["files"].get(f)
                if a is None or b is None or a[col] != b[col]:
                    diff_files.append(f)
            outcome_diff = (rec["status"], rec["detail"]) != (base_rec["status"], base_rec["detail"])
            # the messages of a non-quiet run legitimately mention what was found in the workspace ("Directory created"), its
            # files are what the property is about; quiet runs print results only
            stdio_diff = rec.get("stdio_sha") != base_rec.get("stdio_sha") and quiet and "PYTHONIOENCODING" not in (v.get("env") or {}) and "_stdout" not in (v.get("env") or {})
            log.append(["variant", dims, rec["status"], rec["detail"], len(rec["files"]), len(diff_files), outcome_diff, stdio_diff])
            if diff_files or outcome_diff or stdio_diff:
                violation = {"step": step, "cls": "diverge", "detail": {
                    "dims": dims, "variant": v, "baseline": base_v, "sub": k["sub"], "flags": k["flags"], "lang": lang,
                    "differing_files": diff_files[:12], "n_differing": len(diff_files),
                    "rows": {f: [(base_rec["files"].get(f) or [0, 0, 0, None])[3], (rec["files"].get(f) or [0, 0, 0, None])[3]] for f in diff_files[:12]},
                    "status": [base_rec["status"], rec["status"]], "exc": [base_rec["detail"], rec["detail"]],
                    "stdio_differs": stdio_diff, "stdio_tails": [base_rec.get("stdio_tail", "")[-200:], rec.get("stdio_tail", "")[-200:]] if stdio_diff else None,
                    "compared": "raw bytes" if same_path else "decoded contents, workspace path masked"}}
                break
    finally:
        shutil.rmtree(B, ignore_errors=True)
        for d in extra_dirs:
            shutil.rmtree(d, ignore_errors=True)
    return {"violation": violation, "probes": probes, "states": states, "trans": trans, "steps": len(log),
            "log": digest_hex([log, None if violation is None else [violation["cls"], violation["detail"]["differing_files"]]]),
            "extra": {"lian_processes": sum(1 for _ in log) + sum(len(v.get("history", [])) for _, v in variants),
                      "clock_reads_under_simulated_clock": clock_reads[0], "simulated_clock_seconds": int(clock_reads[1]),
                      "scheduling_decisions": sched[0]}}


# ----------------------------------------------------------------------------- signature / simplification

def signature(trace, violation):
    d = violation.get("detail", {})
    dirs = sorted({f.split(os.sep)[0] for f in d.get("differing_files", [])})
    st = "status" if d.get("status", [0, 0])[0] != d.get("status", [0, 0])[1] else ""
    return f"diverge:{'+'.join(d.get('dims') or ['none'])}|sub={trace['knobs']['sub']}|lang={d.get('lang')}|dirs={','.join(dirs)}{'|' + st if st else ''}"


def _toplevel_chunks(src):
    import ast
    try:
        tree = ast.parse(src)
    except SyntaxError:
        return None
    lines = src.splitlines(keepends=True)
    chunks = []
    for node in tree.body:
        start = min([node.lineno] + [d.lineno for d in getattr(node, "decorator_list", [])]) - 1
        chunks.append((start, node.end_lineno))
    return lines, chunks


def simplify(trace):
    ops = trace["ops"]
    k = trace["knobs"]
    vidx = [i for i, op in enumerate(ops) if op["op"] == "variant"]
    if len(vidx) >= 2:
        base = ops[vidx[0]]
        for i in vidx[1:]:
            v = ops[i]
            for dim, key in (("history", "history"), ("ws", "ws"), ("cwd", "cwd"), ("pyopt", "pyopt"), ("heap", "heap_pad"), ("clock", "clock"), ("env", "env"), ("install", "install"), ("concurrent", "concurrent"), ("dirent", "dirent"), ("hashseed", "hashseed")):
                if v.get(key) != base.get(key):
                    yield dict(trace, ops=ops[:i] + [dict(v, **{key: base.get(key)})] + ops[i + 1:])
            if len(v.get("history", [])) > 1:
                yield dict(trace, ops=ops[:i] + [dict(v, history=v["history"][:1])] + ops[i + 1:])
    if k["flags"]:
        for f in k["flags"]:
            yield dict(trace, knobs=dict(k, flags=[x for x in k["flags"] if x != f]))
    if k["sub"] == "run":
        yield dict(trace, knobs=dict(k, sub="semantic"))
    if k["sub"] in ("run", "semantic"):
        yield dict(trace, knobs=dict(k, sub="lang"))
    # shrink the project: drop top-level statements of Python files (largest first)
    for i, op in enumerate(ops):
        if op["op"] == "file" and op["path"].endswith(".py"):
            tc = _toplevel_chunks(op["content"])
            if not tc:
                continue
            lines, chunks = tc
            for (a, b) in sorted(chunks, key=lambda c: c[0] - c[1]):
                new = "".join(lines[:a] + lines[b:])
                if new.strip() and new != op["content"]:
                    yield dict(trace, ops=ops[:i] + [dict(op, content=new)] + ops[i + 1:])
