"""C16 - table queries always reflect the table's current contents.

World: a pool of up to four DataModel holders (tables created from rows, from each other, by slicing and
by querying), driven through the public API by a seeded history of mutations and queries.  No I/O, no
clock: the environment is degenerate, only operation order (in particular query - mutate - same query on
one holder) is explored.

Oracle, evaluated at every step:
  layer 2 (content)   the holder's data, freshly extracted through get_data(), equals a list-of-rows model
                      that applies each mutation with its obvious meaning;
  layer 1 (coherence) every query answer equals the same query evaluated by a naive scan over that fresh
                      extraction, and every returned position is < len.
Layer 1 never uses any cached structure of the table; layer 2 is what catches a mutation that silently
does nothing.
"""
import contextlib
import io
import math
import os
import warnings

from sim.core import canon_json, digest_hex, h64

PID = "C16"
RULE = ("seeded histories of <= 30 operations over <= 4 live tables (0..8 rows, columns stmt_id/operation/name/v plus added "
        "columns; 4-value alphabets with duplicates, None/NaN cells, block_start/block_end pairs): constructions "
        "(rows, columns=, from another table, clone, slice, slow_query, indexed query), mutations (modify_element/row/column, "
        "append, remove_rows, rename_column, reset_index, fillna) and 19 kinds of query, biased towards "
        "query - mutation - same query on one table.  Non-trivial = some query ran on a table after a mutation that followed "
        "an earlier query of the same table (reach probe 'q_mut_q'); distinct = distinct (knobs, op list).")
STATE_MEASURE = ("states = distinct (row-count bucket, index kind, cached-index-built?, dirty?) per holder at query time; "
                 "transitions = distinct (last mutation kind -> query kind) pairs with an earlier query before the mutation")
REAL = ["lian.util.data_model.DataModel", "Row", "Column", "lian.util.gir_block.GIRBlockViewer / BlockRange", "pandas 3 DataFrame underneath"]
STUBS = []
ASSUMPTIONS = [
    "cells written into a column have the column's type (int columns: int/None, str columns: str/None); pandas itself refuses mixed writes",
    "when table X shares one frame object with table Y (DataModel(Y), DataModel(Y.get_data())) and Y is mutated, X is retired: the property does not define a table's behaviour when ANOTHER table object mutates shared storage",
    "read_block on a block id that does not occur exactly twice: 'not found' (empty result or error exit) is accepted",
    "util.error_and_quit (SystemExit) is accepted only where the scan also says the query has no answer (unknown column / malformed block)",
]
PROBES = ["q_mut_q", "q_after_append", "q_after_remove", "q_after_modify_element", "q_after_modify_row",
          "q_after_modify_column", "q_after_rename", "q_after_fillna", "q_after_reset_index", "index_query_repeat",
          "nonrange_index", "block_query_hit", "alias_retired", "nan_cell", "dup_value_hit", "new_column_added",
          "empty_table", "from_query_holder", "slice_holder", "copy_holder", "viewer_built", "viewer_child_block", "viewer_append", "viewer_append_to_empty", "viewer_from_iterator",
          "viewer_query", "viewer_query_on_child", "big_table", "bool_column_query", "bool_column_query_for_false",
          "indexed_query_on_10k_rows", "indexed_query_on_10k_rows_labels_not_positions", "cell_write_added_column", "huge_int_query", "loaded_from_file", "two_tables_from_one_file", "asked_for_empty_string", "row_labels_repeat"]
# the same check again, smaller, in interpreters started with assertions stripped (python -O / PYTHONOPTIMIZE=1)
ENV_VARIANTS = [{"name": "python-O", "env": {"PYTHONOPTIMIZE": "1"}, "runs": {'quick': 2500, 'thorough': 25000}}]
TIERS = {
    "quick": {"runs": 24000, "budget_s": 150, "chunk": 500, "selftest": 150, "per_run_timeout": 120},
    "thorough": {"runs": 0, "budget_s": 900, "chunk": 2000, "selftest": 600, "per_run_timeout": 120},
}
MIN_SECONDS = 20.0

HUGE_VALS = [2 ** 100 + 7, 2 ** 64, -(2 ** 70) - 1]
INT_VALS = [0, 1, 2, 3]      # 0 on purpose: a numpy zero is falsy
# among the names: texts that look like missing-value markers, and (rarely) the empty string
STR_VALS = {"operation": ["x", "y", "block_start", "block_end"], "name": ["a", "b", "\u00e4\u540d", "a", "None", "nan", "a", "b", ""]}
BASE_COLS = ["stmt_id", "operation", "name", "v"]
KIND = {"stmt_id": "int", "operation": "str", "name": "str", "v": "int", "name2": "str", "v2": "int", "s_op": "str",
        "n1": "int", "s1": "str", "flag": "bool"}

_DM = None
_np = None
_pd = None
_GBV = None


def setup_worker():
    global _DM, _np, _pd, _GBV
    warnings.simplefilter("ignore")
    import numpy, pandas
    from lian.util.data_model import DataModel
    from lian.util.gir_block import GIRBlockViewer
    _DM, _np, _pd, _GBV = DataModel, numpy, pandas, GIRBlockViewer


def col_kind(c):
    return KIND[c]


# ----------------------------------------------------------------------------- reference model

class T:
    """list-of-rows model of one table: cols (ordered), rows = [[label, {col: cell}]]; cell in None|int|str."""
    __slots__ = ("cols", "rows")

    def __init__(self, cols, rows):
        self.cols = list(cols)
        self.rows = [[l, dict(r)] for l, r in rows]

    def copy(self):
        return T(self.cols, self.rows)

    def labels(self):
        return [l for l, _ in self.rows]

    def is_range(self):
        return self.labels() == list(range(len(self.rows)))

    def matrix(self):
        return [[r.get(c) for c in self.cols] for _, r in self.rows]

    def positions(self, col, v, scan=False):
        """scan=False: the equality-indexed queries, for which lian defines the empty string as a missing value (util.isna) -
        asking for it finds nothing; scan=True: condition-based queries and removals, which compare cell by cell"""
        if v is None or col not in self.cols:
            return []
        if v == "" and not scan:
            return []
        return [i for i, (_, r) in enumerate(self.rows) if r.get(col) is not None and r.get(col) == v]


def model_new(rows, columns):
    if columns is None:
        cols = []
        for r in rows:
            for k in r:
                if k not in cols:
                    cols.append(k)
    else:
        cols = list(columns)
    return T(cols, [[i, {c: r.get(c) for c in cols}] for i, r in enumerate(rows)])


# ----------------------------------------------------------------------------- generator

MUTATIONS = ["modify_element", "modify_row", "modify_column", "append", "remove_rows", "rename_column",
             "reset_index", "fillna", "set_columns"]
CONSTRUCTIONS = ["new", "copy_of", "from_df", "clone", "slice", "from_query", "from_qval", "save_load", "dup_labels"]
QUERIES = ["len", "iterate", "access", "access_list", "access_label_col", "access_column", "get_rows",
           "slow_query_first", "qidx", "qval", "qfirst", "bundle_search", "unique", "block_indices", "read_block",
           "read_block_with", "boundary", "dict_list", "slow_query"]
INDEX_QUERIES = ["qidx", "qval", "qfirst", "bundle_search", "block_indices", "read_block", "read_block_with", "boundary"]


def gen_knobs(rng, tier):
    r_pop = rng.random()
    return {
        "population": "big" if r_pop < 0.0025 else "default",
        "p_flag": rng.choice([0.0, 0.0, 0.2, 0.5]),
        "p_huge": rng.choice([0.0, 0.0, 0.05, 0.2]),      # ids beyond 64 bits (digests used as ids): Python ints in object columns
        "p_new_col_cell": rng.choice([0.0, 0.1, 0.3]),    # a cell write that names a column the table does not have yet
        "n_ops": rng.randint(4, 30),
        "max_rows": rng.choice([2, 4, 6, 8]),
        "p_none": rng.choice([0.0, 0.1, 0.3]),
        "w_mut": rng.choice([2, 4, 6]),
        "w_query": rng.choice([4, 8, 12]),
        "w_cons": rng.choice([1, 2]),
        "p_repeat_query": rng.choice([0.3, 0.6, 0.9]),
        "p_index_query": rng.choice([0.3, 0.6]),
        "muts": sorted(rng.sample(MUTATIONS, rng.randint(2, len(MUTATIONS)))),
        "blocks": rng.random() < 0.5,
        "w_viewer": rng.choice([0, 0, 2, 5]),
    }


def _gen_cell(rng, k, col):
    if rng.random() < k["p_none"]:
        return None
    if col_kind(col) == "int":
        return rng.choice(INT_VALS)
    if col_kind(col) == "bool":
        return rng.choice([True, False])
    return rng.choice(STR_VALS.get(col, ["a", "b", "c", "a"]))


def _gen_val(rng, col, k=None):
    """a value to ask a column for"""
    if col_kind(col) == "int":
        if k and k.get("p_huge") and col in ("v", "n1", "v2") and rng.random() < k["p_huge"] * 2:
            return rng.choice(HUGE_VALS)
        return rng.choice(INT_VALS)
    if col_kind(col) == "bool":
        return rng.choice([True, False, False])
    return rng.choice(STR_VALS.get(col, ["a", "b", "c"]))


def _gen_rows(rng, k, cols, n=None):
    n = rng.randint(0, k["max_rows"]) if n is None else n
    rows = []
    for _ in range(n):
        r = {}
        for c in cols:
            if rng.random() < 0.1:
                continue       # key missing from the dict -> NaN
            r[c] = _gen_cell(rng, k, c)
        rows.append(r)
    if k["blocks"] and n >= 2 and "stmt_id" in cols and "operation" in cols:
        i = rng.randrange(n - 1)
        j = rng.randrange(i + 1, n)
        b = rng.choice(INT_VALS)
        for r in rows:
            if r.get("stmt_id") == b:
                r["stmt_id"] = (b % 4) + 1 if rng.random() < 0.8 else b
        rows[i]["stmt_id"], rows[i]["operation"] = b, "block_start"
        rows[j]["stmt_id"], rows[j]["operation"] = b, "block_end"
    # ids beyond 64 bits: pandas keeps them exact only in an object column, and it infers float64 (rounding them) when the same
    # batch of rows also has a missing value in that column - so the column is complete in such a batch
    for c in cols:
        if c in ("v", "n1") and rows and k.get("p_huge") and rng.random() < k["p_huge"]:
            for r in rows:
                if r.get(c) is None:
                    r[c] = rng.choice(INT_VALS)
            rng.choice(rows)[c] = rng.choice(HUGE_VALS)
    # pandas infers float64 for a column without any value; a later str write would be refused by pandas itself.
    # keep the generator inside the domain where writes are type-correct: a str column must hold >= 1 string.
    for c in cols:
        if col_kind(c) == "str" and rows and not any(isinstance(r.get(c), str) for r in rows):
            for r in rows:
                r.pop(c, None)
    return rows


def _gen_query(rng, k, kind=None):
    kind = kind or (rng.choice(INDEX_QUERIES) if rng.random() < k["p_index_query"] else rng.choice(QUERIES))
    q = {"op": "q", "kind": kind, "h": rng.randrange(8)}
    col = rng.choice(BASE_COLS + ["n1", "s1", "name2"])
    if rng.random() < k.get("p_flag", 0.0):
        col = "flag"
    if kind in ("qidx", "qval", "qfirst", "bundle_search", "unique", "access_column", "slow_query_first", "slow_query"):
        q["col"] = col
    if kind in ("qidx", "qval", "qfirst", "bundle_search", "slow_query_first", "slow_query"):
        q["v"] = _gen_val(rng, col, k)
        if rng.random() < 0.05:
            q["v"] = None
    if kind in ("access",):
        q["i"] = rng.randint(-1, 9)
    if kind == "access_list":
        q["is"] = [rng.randint(0, 8) for _ in range(rng.randint(0, 3))]
    if kind == "access_label_col":
        q["i"] = rng.randrange(16)
        q["col"] = col
    if kind in ("block_indices", "read_block", "read_block_with"):
        q["b"] = rng.choice(INT_VALS)
        q["reset"] = rng.random() < 0.3
    if kind == "boundary":
        q["bs"] = [rng.choice(INT_VALS + [None]) for _ in range(rng.randint(0, 3))]
    return q


def _gen_mutation(rng, k):
    kind = rng.choice(k["muts"])
    op = {"op": kind, "h": rng.randrange(8)}
    col = rng.choice(BASE_COLS + (["n1", "s1", "name2"] if rng.random() < 0.3 else []))
    if rng.random() < k.get("p_flag", 0.0) * 0.6:
        col = "flag"
    if kind == "modify_element":
        if rng.random() < k.get("p_new_col_cell", 0):
            col = rng.choice(["n1", "s1"])
        op.update(i=rng.randrange(16), col=col, v=_gen_cell(rng, k, col))
    elif kind == "modify_row":
        op.update(i=rng.randrange(16), seed_vals=[rng.randrange(1000) for _ in range(8)], none_mask=[rng.random() < k["p_none"] for _ in range(8)])
    elif kind == "modify_column":
        col = rng.choice(BASE_COLS + ["n1", "s1"])
        if rng.random() < 0.5:
            op.update(col=col, scalar=True, v=_gen_cell(rng, k, col))
        else:
            op.update(col=col, scalar=False, seed_vals=[rng.randrange(1000) for _ in range(10)],
                      none_mask=[rng.random() < k["p_none"] for _ in range(10)])
    elif kind == "append":
        if rng.random() < 0.25:
            op.update(other_h=rng.randrange(8))
        else:
            cols = [c for c in BASE_COLS if rng.random() < 0.9] or ["stmt_id"]
            if rng.random() < 0.1:
                cols.append("s1")
            if rng.random() < k.get("p_flag", 0.0):
                cols.append("flag")
            op.update(rows=_gen_rows(rng, k, cols, n=rng.randint(0, 3)))
    elif kind == "remove_rows":
        op.update(col=col, v=_gen_val(rng, col))
    elif kind == "rename_column":
        old = rng.choice(["name", "v", "name2", "v2", "operation"])
        new = {"name": "name2", "name2": "name", "v": "v2", "v2": "v", "operation": "s_op"}[old]
        op.update(old=old, new=new)
        r = rng.random()
        if r < 0.3:
            # a rename map whose new names overlap its old names: swap of two same-typed columns, or a chain
            op["pairs"] = rng.choice([[["name", "operation"], ["operation", "name"]], [["stmt_id", "v"], ["v", "stmt_id"]],
                                      [["name", "operation"], ["operation", "s_op"]], [["v", "stmt_id"], ["stmt_id", "v2"]],
                                      [["name", "name2"], ["v", "v2"]]])
    elif kind == "set_columns":
        old = rng.choice(["name", "v", "name2", "v2"])
        op.update(old=old, new={"name": "name2", "name2": "name", "v": "v2", "v2": "v"}[old])
    elif kind == "fillna":
        cols = [c for c in BASE_COLS + ["n1", "s1"] if rng.random() < 0.5] or ["v"]
        op.update(values={c: (rng.choice(INT_VALS) if col_kind(c) == "int" else "f") for c in cols})
    return op


def _gen_construction(rng, k):
    kind = rng.choice(CONSTRUCTIONS)
    op = {"op": kind, "h": rng.randrange(8)}
    if kind == "new":
        cols = list(BASE_COLS) if rng.random() < 0.8 else [c for c in BASE_COLS if rng.random() < 0.7] or ["stmt_id"]
        if rng.random() < k.get("p_flag", 0.0):
            cols = cols + ["flag"]
        op["rows"] = _gen_rows(rng, k, cols)
        # columns= may only name str columns that hold a string in some row (see _gen_rows)
        cols = [c for c in cols if col_kind(c) in ("int", "bool") or any(isinstance(r.get(c), str) for r in op["rows"])]
        r = rng.random()
        op["columns"] = None if r < 0.6 else (cols if r < 0.8 else {"dict": cols})
    elif kind == "from_df":
        op["is_copy"] = rng.random() < 0.5
    elif kind == "slice":
        op.update(a=rng.randrange(10), b=rng.randrange(10))
    elif kind == "dup_labels":
        op.update(k=rng.randint(1, 4))      # a table built from a frame that was concatenated without renumbering: row labels repeat
    elif kind == "save_load":
        op.update(twice=rng.random() < 0.6)      # the table is saved to a file and read back, once or twice (two tables from one file)
    elif kind in ("from_query", "from_qval"):
        col = rng.choice(BASE_COLS)
        op.update(col=col, v=rng.choice(INT_VALS) if col_kind(col) == "int" else rng.choice(STR_VALS[col]),
                  reset=rng.random() < 0.6)
    return op


def _gen_gir(rng, k):
    """a well-formed GIR-like table: unique stmt ids, properly nested block_start/block_end pairs sharing the block id."""
    rows = []
    counter = [10]

    def body(depth, budget):
        n = rng.randint(0, 3)
        for _ in range(n):
            if budget[0] <= 0:
                return
            counter[0] += 1
            sid = counter[0]
            if depth < 3 and rng.random() < 0.45:
                budget[0] -= 2
                rows.append({"stmt_id": sid, "operation": "block_start", "name": rng.choice(["a", "b"]), "v": depth})
                body(depth + 1, budget)
                rows.append({"stmt_id": sid, "operation": "block_end", "name": rng.choice(["a", "b"]), "v": depth})
            else:
                budget[0] -= 1
                rows.append({"stmt_id": sid, "operation": rng.choice(["x", "y", "x"]), "name": rng.choice(["a", "b", "c"]), "v": rng.choice(INT_VALS)})
    body(0, [max(4, k["max_rows"] + 4)])
    if not rows:
        rows.append({"stmt_id": 11, "operation": "x", "name": "a", "v": 1})
    return rows


VQ_KINDS = ["len", "iterate", "getitem", "getslice", "contains_stmt_id", "all_stmt_ids", "block_stmt_ids", "stmt_by_id", "stmt_by_pos",
            "query_operation", "query_field", "boundary"]


def _gen_viewer_op(rng, k):
    r = rng.random()
    if r < 0.17:
        return {"op": "viewer_new", "h": rng.randrange(8), "via": rng.choice(["table", "table", "iter", "generator", "list"])}
    if r < 0.22:
        return {"op": "viewer_new", "h": 0, "empty": True}       # the production pattern: start empty, then append views
    if r < 0.45:
        return {"op": "viewer_read_block", "v": rng.randrange(8), "b": rng.randrange(40)}
    if r < 0.57:
        return {"op": "viewer_append", "v": rng.randrange(8), "w": rng.randrange(8)}
    kind = rng.choice(VQ_KINDS)
    q = {"op": "vq", "kind": kind, "v": rng.randrange(8)}
    if kind == "getitem":
        q["i"] = rng.randint(-6, 6)
    elif kind == "getslice":
        q["sl"] = [rng.choice([None, None, 0, 1, 2, -1, -3, 5, -100]), rng.choice([None, None, 0, 1, 3, -1, -2, 100, -100]),
                   rng.choice([None, None, 1, 2, -1, -1, -2])]
    elif kind in ("contains_stmt_id", "stmt_by_id", "block_stmt_ids"):
        q["sid"] = rng.randrange(40)
    elif kind == "stmt_by_pos":
        q["i"] = rng.randint(-1, 12)
    elif kind == "query_operation":
        q["operation"] = rng.choice(["x", "y", "block_start", "block_end", "zz"])
    elif kind == "query_field":
        q["field"], q["value"] = rng.choice([["name", "a"], ["name", "b"], ["v", 1], ["operation", "x"], ["nofield", 1]])
    elif kind == "boundary":
        q["bs"] = [rng.randrange(40) for _ in range(rng.randint(0, 3))]
    return q


BIG_OPS = ["x", "y", "block_start", "block_end"]


def big_rows(n, salt):
    """the rows of a big table, a pure function of (n, salt): every value repeats thousands of times"""
    return [{"stmt_id": (i * 3 + salt) % 4 + 1, "operation": BIG_OPS[(i + i // 5 + salt) % 4], "name": ["a", "b", "\u00e4\u540d"][(i * 7 + salt) % 3],
             "v": (i * 5 + i // 3 + salt) % 5 + 1} for i in range(n)]


def generate_big(rng, k):
    """tables around lian's size thresholds (10^4 rows): a removal makes row labels differ from row positions, then
    equality-indexed questions are asked of the table and of tables derived from it."""
    n = rng.choice([9000, 9990, 10000, 10010, 11000, 12000, 12600, 13000, 15000])
    ops = [{"op": "new_big", "h": 0, "n": n, "salt": rng.randrange(100)}]
    for _ in range(rng.randint(3, 7)):
        r = rng.random()
        col = rng.choice(["stmt_id", "operation", "name", "v"])
        val = rng.choice([1, 2, 3, 4, 5]) if col == "v" else _gen_val(rng, col)
        if r < 0.3:
            ops.append({"op": "remove_rows", "h": rng.choice([0, -1]), "col": col, "v": val})
        elif r < 0.4:
            ops.append({"op": rng.choice(["slice", "from_query", "from_qval"]), "h": 0, "a": rng.randrange(3000), "b": n - rng.randrange(3000),
                        "col": col, "v": val, "reset": rng.random() < 0.3})
        elif r < 0.5:
            ops.append({"op": "q", "kind": rng.choice(["access", "len", "get_rows"]), "h": rng.choice([0, -1]), "i": rng.randrange(9000)})
        else:
            ops.append({"op": "q", "kind": rng.choice(["qidx", "qidx", "qfirst", "qval", "bundle_search"]), "h": rng.choice([0, -1]), "col": col, "v": val})
    return ops


def generate(rng, k):
    if k.get("population") == "big":
        return generate_big(rng, k)
    first_cols = BASE_COLS + (["flag"] if rng.random() < k.get("p_flag", 0.0) else [])
    ops = [{"op": "new", "h": 0, "rows": _gen_rows(rng, k, first_cols, n=rng.randint(1, k["max_rows"])), "columns": None}]
    if k.get("w_viewer"):
        ops.append({"op": "new", "h": 1, "rows": _gen_gir(rng, k), "columns": None})
        ops.append({"op": "viewer_new", "h": 1})
    last_q = None
    weights = ["m"] * k["w_mut"] + ["q"] * k["w_query"] + ["c"] * k["w_cons"] + ["v"] * k.get("w_viewer", 0)
    for _ in range(k["n_ops"] - 1):
        w = rng.choice(weights)
        if w in ("m", "c") and rng.random() < 0.04:
            # two tables derived from one another: make the source clean, derive, change one of them, ask the changed one an
            # indexed question (no row access before it), then ask the OTHER one the same kind of question
            src_h = rng.randrange(8)
            col = rng.choice(["name", "operation", "stmt_id", "v"])
            val = rng.choice(INT_VALS) if col_kind(col) == "int" else rng.choice(STR_VALS.get(col, ["a", "b"]))
            ops.append({"op": "q", "kind": rng.choice(["iterate", "access", "get_rows"]), "h": src_h, "i": 0})
            ops.append({"op": rng.choice(["clone", "clone", "copy_of", "from_df"]), "h": src_h, "is_copy": True})
            tgt = rng.choice([src_h, -1])
            ops.append({"op": "modify_element", "h": tgt, "i": rng.randrange(16), "col": col, "v": _gen_cell(rng, k, col)})
            ops.append({"op": "q", "kind": "qidx", "h": tgt, "col": col, "v": val})
            ops.append({"op": "q", "kind": "qidx", "h": -1 if tgt == src_h else src_h, "col": col,
                        "v": rng.choice(INT_VALS) if col_kind(col) == "int" else rng.choice(STR_VALS.get(col, ["a", "b"]))})
            continue
        if w == "v":
            if rng.random() < 0.08:
                # the production pattern with a nested view: child = read_block(last); empty viewer; empty.append_other(child);
                # then position-based / visibility-unchecked queries on the result
                ops.append({"op": "viewer_read_block", "v": -1, "b": rng.choice([1, 2, 5, 6, 9, 10, 13])})
                ops.append({"op": "viewer_new", "h": 0, "empty": True})
                ops.append({"op": "viewer_append", "v": -1, "w": -2})
                for kind_ in rng.sample(["stmt_by_pos", "block_stmt_ids", "boundary", "getitem", "all_stmt_ids"], 3):
                    q = _gen_viewer_op(rng, k)
                    while q["op"] != "vq" or q["kind"] != kind_:
                        q = _gen_viewer_op(rng, k)
                    q["v"] = -1
                    ops.append(q)
                continue
            ops.append(_gen_viewer_op(rng, k))
            continue
        if w == "q":
            if last_q is not None and rng.random() < k["p_repeat_query"]:
                q = dict(last_q)         # the same query again (typically after a mutation in between)
            else:
                q = _gen_query(rng, k)
            last_q = q
            ops.append(q)
        elif w == "m":
            m = _gen_mutation(rng, k)
            if last_q is not None and rng.random() < 0.8:
                m["h"] = last_q["h"]
            ops.append(m)
        else:
            ops.append(_gen_construction(rng, k))
    return ops


# ----------------------------------------------------------------------------- extraction / canonical forms

def cell(x):
    if x is None:
        return None
    if isinstance(x, str):
        return x
    if isinstance(x, (bool, _np.bool_)):
        return bool(x)
    if isinstance(x, (int, _np.integer)):
        return int(x)
    if isinstance(x, (float, _np.floating)):
        if math.isnan(x):
            return None
        return int(x) if float(x).is_integer() else float(x)
    try:
        if _pd.isna(x):
            return None
    except (TypeError, ValueError):
        pass
    return repr(x)


def debool(x):
    """pandas converts freely between False/True and 0/1 when a column changes its dtype (a bool appended to an
    all-missing float column arrives as 0.0); contents are compared modulo that identification, which Python's == shares."""
    if isinstance(x, bool):
        return int(x)
    if isinstance(x, dict):
        return {k_: debool(v_) for k_, v_ in x.items()}
    if isinstance(x, (list, tuple)):
        return [debool(v_) for v_ in x]
    return x


def cj(x):
    return canon_json(debool(x))


def extract(dm):
    """fresh extraction through the public get_data(); uses none of the table's cached structures."""
    df = dm.get_data()
    cols = [str(c) for c in df.columns]
    labels = [cell(l) for l in df.index]
    rows = []
    if len(df) > 500:
        mat = df.to_numpy(dtype=object)          # big tables: one conversion instead of one .iat call per cell
        for i in range(len(df)):
            rows.append([labels[i], {c: cell(mat[i, j]) for j, c in enumerate(cols)}])
        return T(cols, rows)
    for i in range(len(df)):
        rows.append([labels[i], {c: cell(df.iat[i, j]) for j, c in enumerate(cols)}])
    return T(cols, rows)


def row_cells(row, cols):
    """a Row returned by the table -> {col: cell} using the Row's own name lookup."""
    if row is None:
        return None
    d = row.to_dict()
    return {str(c): cell(v) for c, v in d.items()}


def dm_rows(dm):
    """rows of a returned DataModel (query result) -> [[label, {col: cell}]] via its own iteration."""
    out = []
    for r in dm:
        out.append([cell(r.get_index()), row_cells(r, None)])
    return out


class Quit(Exception):
    pass


# ----------------------------------------------------------------------------- executor

def execute(trace):
    k = trace["knobs"]
    save_dir = [None]    # scratch directory for tables saved to files
    holders = []      # dicts: dm, model(T), queried(bool), mutated_after_query(str|None), retired(bool)
    probes = {}
    states, trans = set(), set()
    log = []
    violation = None

    def hit(name, n=1):
        probes[name] = probes.get(name, 0) + n

    recent_h = []

    def add_holder(dm, model, origin):
        h = {"dm": dm, "model": model, "queried": False, "mut": None, "origin": origin}
        if len(holders) < 4:
            holders.append(h)
        else:
            holders[len(log) % 4] = h
        recent_h.append(h)
        return h

    def pick_holder(idx):
        """non-negative: modulo the live tables; negative: the n-th most recently created live table"""
        if idx < 0:
            live = [r for r in recent_h if any(r is x for x in holders)]
            if len(live) >= -idx:
                return live[idx]
            return holders[0]
        return holders[idx % len(holders)]

    viewers = []      # dicts: v (GIRBlockViewer), rows ([dict], the snapshot it was built from), s, e (open range), src (holder)

    recent = []       # viewer records in creation order; negative op addresses mean "the n-th most recent live viewer"

    def add_viewer(v, rows, s_, e_, src):
        rec = {"v": v, "rows": rows, "s": s_, "e": e_, "src": src}
        if len(viewers) < 4:
            viewers.append(rec)
        else:
            viewers[len(log) % 4] = rec
        recent.append(rec)

    def pick_viewer(idx):
        if idx < 0:
            live = [r for r in recent if any(r is x for x in viewers)]
            if len(live) >= -idx:
                return live[idx]
            return viewers[0]
        return viewers[idx % len(viewers)]

    def sut(f):
        """run SUT code with stdout/stderr captured; SystemExit -> Quit."""
        buf = io.StringIO()
        try:
            with contextlib.redirect_stdout(buf), contextlib.redirect_stderr(buf):
                return f()
        except SystemExit:
            raise Quit()

    def writable(h, col, value):
        """pandas refuses a str into a numeric column (an all-missing column is inferred float64) and a number into a
        str column; such writes are outside the generated domain and are skipped by model and table alike."""
        dt = h["dm"].get_data()[col].dtype
        kind = getattr(dt, "kind", "O")
        if value is None:
            return kind != "b"            # a missing value into a pure bool column: left out (pandas decides about the dtype)
        if isinstance(value, bool):
            return kind in "bO" and str(dt) not in ("str", "string")
        if isinstance(value, int) and not (-2 ** 63 <= value < 2 ** 63):
            return kind == "O" and str(dt) not in ("str", "string")      # an int64 / float64 column cannot take it
        if kind == "b":
            return False
        if isinstance(value, str):
            return kind not in "fiub"
        return kind in "fiuO" and str(dt) not in ("str", "string")

    def retire_aliases(h):
        """holders sharing h's frame object are retired before h is mutated."""
        df = h["dm"].get_data()
        for o in list(holders):
            if o is not h and o["dm"].get_data() is df:
                if o["origin"] == "save_load" and h["origin"] == "save_load":
                    continue          # two tables read from a file are two tables: sharing storage between them is not licensed
                holders.remove(o)
                hit("alias_retired")

    for step, op in enumerate(trace["ops"]):
        kind = op["op"]
        obs = None
        try:
            # ------------------------------------------------------------ constructions
            if kind == "new_big":
                rows_arg = big_rows(op["n"], op.get("salt", 0))
                model = model_new(rows_arg, None)
                dm = sut(lambda: _DM([dict(r) for r in rows_arg]))
                add_holder(dm, model, "new_big")
                hit("big_table")
                log.append([kind, len(model.rows)])
            elif kind == "new":
                cols = op.get("columns")
                carg = None
                if isinstance(cols, dict):
                    carg = {c: 0 for c in cols["dict"]}
                    cols = cols["dict"]
                elif cols is not None:
                    carg = list(cols)
                rows_arg = [dict(r) for r in op["rows"]]
                if not cols and not any(rows_arg):
                    rows_arg = []             # rows without any key: a frame with rows but no columns is left out
                model = model_new(rows_arg, cols if cols else None) if (rows_arg or cols) else T([], [])
                dm = sut(lambda: _DM(rows_arg, columns=carg))
                add_holder(dm, model, "new")
                if not model.rows:
                    hit("empty_table")
                log.append([kind, len(model.rows)])
            elif not holders:
                continue
            elif kind == "dup_labels":
                src = pick_holder(op["h"])
                m = src["model"]
                if not m.rows or not m.cols or src.get("dup"):
                    continue
                kk = max(1, min(op.get("k", 1), len(m.rows)))
                df0 = src["dm"].get_data()
                df2 = df0.iloc[:kk].copy()
                df2.index = df0.index[len(df0) - kk:]        # copies of the FIRST rows under the labels of the LAST rows
                dfc = _pd.concat([df0, df2])
                dm = sut(lambda: _DM(dfc, is_copy=True))
                tail_labels = [l_ for l_, _ in m.rows[len(m.rows) - kk:]]
                hnew = add_holder(dm, T(m.cols, m.rows + [[tail_labels[j_], dict(m.rows[j_][1])] for j_ in range(kk)]), kind)
                hnew["dup"] = True
                hit("row_labels_repeat")
                log.append([kind, len(holders)])
            elif kind == "save_load":
                src = pick_holder(op["h"])
                m = src["model"]

                def one_kind(c_):
                    vals_ = [r_.get(c_) for _, r_ in m.rows if r_.get(c_) is not None]
                    kinds_ = {("bool" if isinstance(v_, bool) else "int" if isinstance(v_, int) else "str") for v_ in vals_}
                    return len(kinds_) <= 1 and all(not isinstance(v_, int) or isinstance(v_, bool) or -2 ** 63 <= v_ < 2 ** 63 for v_ in vals_)
                if not m.cols or not m.rows or not all(one_kind(c_) for c_ in m.cols) or src.get("dup"):
                    continue          # the file format stores one kind of value per column (and 64-bit integers): other tables are left out
                if save_dir[0] is None:
                    import tempfile
                    from sim.core import scratch_root
                    save_dir[0] = tempfile.mkdtemp(prefix="c16-", dir=scratch_root())
                path_ = os.path.join(save_dir[0], f"t{step}.feather")
                retire_aliases(src)
                sut(lambda: src["dm"].save(path_))
                m.rows = [[i_, r_] for i_, (_, r_) in enumerate(m.rows)]        # save() resets the row labels of the table itself
                for _ in range(2 if op.get("twice") else 1):
                    dm = sut(lambda: _DM().load(path_))
                    add_holder(dm, T(m.cols, m.rows), kind)
                hit("loaded_from_file")
                if op.get("twice"):
                    hit("two_tables_from_one_file")
                log.append([kind, len(holders)])
            elif kind in ("copy_of", "from_df", "clone", "slice", "from_query", "from_qval"):
                src = pick_holder(op["h"])
                if src.get("dup"):
                    continue          # tables whose row labels repeat: only removals, renumbering and position / value based queries
                m = src["model"]
                if kind == "copy_of":
                    dm = sut(lambda: _DM(src["dm"]))
                    add_holder(dm, m.copy(), kind)
                    hit("copy_holder")
                elif kind == "from_df":
                    dm = sut(lambda: _DM(src["dm"].get_data(), is_copy=op["is_copy"]))
                    add_holder(dm, m.copy(), kind)
                    hit("copy_holder")
                elif kind == "clone":
                    dm = sut(lambda: src["dm"].clone())
                    add_holder(dm, m.copy(), kind)
                    hit("copy_holder")
                elif kind == "slice":
                    n = len(m.rows)
                    a, b = op["a"] % (n + 1), op["b"] % (n + 1)
                    if a > b:
                        a, b = b, a
                    dm = sut(lambda: src["dm"].slice(a, b))
                    add_holder(dm, T(m.cols, m.rows[a:b]), kind)
                    hit("slice_holder")
                elif kind == "from_query":
                    if op["col"] not in m.cols:
                        continue
                    pos = m.positions(op["col"], op["v"], scan=True)
                    dm = sut(lambda: src["dm"].slow_query(src["dm"].access_column(op["col"]) == op["v"],
                                                         reset_index=op["reset"]))
                    rows = [m.rows[i] for i in pos]
                    if op["reset"]:
                        rows = [[i, r] for i, (_, r) in enumerate(rows)]
                    add_holder(dm, T(m.cols, rows), kind)
                    hit("from_query_holder")
                else:  # from_qval
                    if op["col"] not in m.cols:
                        continue
                    pos = m.positions(op["col"], op["v"])
                    src_state(src, states, "qval")
                    res = sut(lambda: src["dm"].query_index_column_value(op["col"], op["v"]))
                    note_query(src, "qval", hit, trans)
                    if not pos:
                        if not (isinstance(res, list) and len(res) == 0):
                            violation = vio(step, "query:qval", op, [], repr(res)[:200], src)
                    else:
                        if not isinstance(res, _DM):
                            violation = vio(step, "query:qval", op, [m.rows[i] for i in pos], repr(res)[:200], src)
                        else:
                            add_holder(res, T(m.cols, [m.rows[i] for i in pos]), kind)
                            hit("from_query_holder")
                log.append([kind, len(holders)])
            # ------------------------------------------------------------ mutations
            elif kind in MUTATIONS:
                h = pick_holder(op["h"])
                if h.get("dup") and kind not in ("remove_rows", "reset_index"):
                    continue
                m = h["model"]
                n = len(m.rows)
                applied = False
                if kind == "modify_element":
                    if n and op["col"] not in m.cols and op["col"] in ("n1", "s1") and m.cols:
                        # a cell write into a column the table does not have yet: pandas enlarges the frame, the table shows the
                        # new column everywhere (missing in the other rows)
                        i = op["i"] % n
                        label = m.rows[i][0]
                        retire_aliases(h)
                        sut(lambda: h["dm"].modify_element(label, op["col"], op["v"]))
                        m.cols.append(op["col"])
                        for _, r_ in m.rows:
                            r_[op["col"]] = None
                        m.rows[i][1][op["col"]] = op["v"]
                        applied = True
                        hit("cell_write_added_column")
                    elif n and op["col"] in m.cols and writable(h, op["col"], op["v"]):
                        i = op["i"] % n
                        label = m.rows[i][0]
                        retire_aliases(h)
                        sut(lambda: h["dm"].modify_element(label, op["col"], op["v"]))
                        m.rows[i][1][op["col"]] = op["v"]
                        applied = True
                elif kind == "modify_row":
                    if n and len(m.cols) >= 2:     # one-column frames: pandas rejects a 1-element list (corner case left out)
                        i = op["i"] % n
                        vals = []
                        for j, c in enumerate(m.cols):
                            sv = op["seed_vals"][j % len(op["seed_vals"])]
                            if op["none_mask"][j % len(op["none_mask"])]:
                                vals.append(None)
                            elif col_kind(c) == "int":
                                vals.append(INT_VALS[sv % 4])
                            elif col_kind(c) == "bool":
                                vals.append([True, False][sv % 2])
                            else:
                                vals.append(STR_VALS.get(c, ["a", "b", "c", "a"])[sv % 4])
                        if all(writable(h, c, v) for c, v in zip(m.cols, vals)):
                            retire_aliases(h)
                            sut(lambda: h["dm"].modify_row(i, list(vals)))
                            m.rows[i][1] = dict(zip(m.cols, vals))
                            applied = True
                elif kind == "modify_column":
                    c = op["col"]
                    if m.cols or True:
                        if op["scalar"]:
                            vals = [op["v"]] * n
                            arg = op["v"]
                        else:
                            vals = []
                            for j in range(n):
                                sv = op["seed_vals"][j % len(op["seed_vals"])]
                                if op["none_mask"][j % len(op["none_mask"])]:
                                    vals.append(None)
                                elif col_kind(c) == "int":
                                    vals.append(INT_VALS[sv % 4])
                                elif col_kind(c) == "bool":
                                    vals.append([True, False][sv % 2])
                                else:
                                    vals.append(["a", "b", "c", "a"][sv % 4])
                            arg = list(vals)
                        if n == 0 and not m.cols:
                            pass      # column assignment on a frame without columns and rows: skipped
                        else:
                            retire_aliases(h)
                            sut(lambda: h["dm"].modify_column(c, arg))
                            if c not in m.cols:
                                m.cols.append(c)
                                hit("new_column_added")
                            for j, (_, r) in enumerate(m.rows):
                                r[c] = vals[j]
                            applied = True
                elif kind == "append":
                    if "other_h" in op:
                        o = holders[op["other_h"] % len(holders)]
                        om = o["model"].copy()
                        arg = o["dm"]
                    else:
                        om = model_new(op["rows"], None)
                        arg = sut(lambda: _DM([dict(r) for r in op["rows"]]))
                    # concat of frames where one side has no columns at all is left out (pandas corner case)
                    if m.cols and om.cols and len(om.rows) > 0:
                        retire_aliases(h)
                        sut(lambda: h["dm"].append_data_model(arg))
                        cols = m.cols + [c for c in om.cols if c not in m.cols]
                        rows = [r for _, r in m.rows] + [r for _, r in om.rows]
                        m.cols = cols
                        m.rows = [[i, {c: r.get(c) for c in cols}] for i, r in enumerate(rows)]
                        applied = True
                elif kind == "remove_rows":
                    if op["col"] in m.cols:
                        retire_aliases(h)
                        sut(lambda: h["dm"].remove_rows(op["col"], op["v"]))
                        m.rows = [[l, r] for l, r in m.rows if not (r.get(op["col"]) is not None and r.get(op["col"]) == op["v"])]
                        applied = True
                elif kind == "rename_column":
                    pairs = op.get("pairs") or [[op["old"], op["new"]]]
                    mapping = {a: b for a, b in pairs}
                    newcols = [mapping.get(c, c) for c in m.cols]
                    # every old name must exist, the result must not contain duplicate column names
                    if all(a in m.cols for a in mapping) and len(set(newcols)) == len(newcols):
                        retire_aliases(h)
                        sut(lambda: h["dm"].rename_column(dict(mapping)))
                        m.cols = newcols
                        for _, r in m.rows:
                            vals = {mapping.get(c, c): v for c, v in r.items()}
                            r.clear()
                            r.update(vals)
                        applied = True
                elif kind == "set_columns":
                    if op["old"] in m.cols and op["new"] not in m.cols:
                        retire_aliases(h)
                        newcols = [op["new"] if c == op["old"] else c for c in m.cols]
                        sut(lambda: h["dm"].set_columns(list(newcols)))
                        m.cols = newcols
                        for _, r in m.rows:
                            r[op["new"]] = r.pop(op["old"], None)
                        applied = True
                elif kind == "reset_index":
                    retire_aliases(h)
                    sut(lambda: h["dm"].reset_index())
                    m.rows = [[i, r] for i, (_, r) in enumerate(m.rows)]
                    h["dup"] = False
                    applied = True
                elif kind == "fillna":
                    vals = {c: v for c, v in op["values"].items() if c in m.cols and writable(h, c, v)}
                    if vals and n:
                        retire_aliases(h)
                        sut(lambda: h["dm"].fillna(dict(vals)))
                        for _, r in m.rows:
                            for c, v in vals.items():
                                if r.get(c) is None:
                                    r[c] = v
                        applied = True
                if applied:
                    if h["queried"]:
                        h["mut"] = kind
                    # a block viewer is a view of the rows it was built from: viewers of a mutated table are retired
                    viewers[:] = [w for w in viewers if w["src"] is not h]
                    log.append([kind, len(m.rows)])
                else:
                    continue
            # ------------------------------------------------------------ queries
            elif kind == "viewer_new" and op.get("empty"):
                v = sut(lambda: _GBV())
                add_viewer(v, [], -1, 0, None)
                hit("viewer_built")
                log.append([kind, 0])
            elif kind == "viewer_new":
                h = pick_holder(op["h"])
                rows = [dict(r) for _, r in h["model"].rows]
                if not gir_wellformed(rows):
                    continue
                via = op.get("via", "table")
                if via == "iter":
                    v = sut(lambda: _GBV(iter(h["dm"])))                 # a one-shot iterator over the rows
                elif via == "generator":
                    v = sut(lambda: _GBV(r_ for r_ in h["dm"]))          # a generator expression
                elif via == "list":
                    v = sut(lambda: _GBV(list(h["dm"])))
                else:
                    v = sut(lambda: _GBV(h["dm"]))
                if via in ("iter", "generator"):
                    hit("viewer_from_iterator")
                add_viewer(v, rows, -1, len(rows), h)
                hit("viewer_built")
                log.append([kind, len(rows)])
            elif kind in ("viewer_read_block", "viewer_append", "vq"):
                if not viewers:
                    continue
                w = pick_viewer(op["v"])
                rows, s_, e_ = w["rows"], w["s"], w["e"]
                ids = sorted({r["stmt_id"] for r in rows})
                if kind == "viewer_read_block":
                    blocks = [i_ for i_ in ids if block_range(rows, i_)]
                    inner = [i_ for i_ in blocks if s_ < block_range(rows, i_)[0] and block_range(rows, i_)[1] < e_]
                    if inner and op["b"] % 4 in (1, 2):
                        b = inner[op["b"] % len(inner)]        # a block visible from this view
                    elif blocks and op["b"] % 4 == 3:
                        b = blocks[op["b"] % len(blocks)]      # any block (possibly outside the view, or the view's own)
                    else:
                        b = ids[op["b"] % len(ids)] if ids and op["b"] % 8 else op["b"]
                    rng_b = block_range(rows, b)
                    child = sut(lambda: w["v"].read_block(b))
                    exp_ok = rng_b is not None and s_ < rng_b[0] and rng_b[1] < e_
                    if exp_ok != (child is not None):
                        violation = {"step": step, "cls": "viewer:read_block", "detail": {"op": op, "block": b, "expected_visible": exp_ok,
                                                                                          "observed": repr(child)[:200], "range": [s_, e_], "rows": rows}}
                    elif child is not None:
                        add_viewer(child, rows, rng_b[0], rng_b[1], w["src"])
                        hit("viewer_child_block")
                    log.append([kind, b, exp_ok])
                elif kind == "viewer_append":
                    o = pick_viewer(op["w"])
                    comb = rows[s_ + 1:e_] + o["rows"][o["s"] + 1:o["e"]]
                    if o is w or not comb or not gir_wellformed(comb):
                        continue
                    sut(lambda: w["v"].append_other(o["v"]))
                    w["rows"], w["s"], w["e"] = [dict(r) for r in comb], -1, len(comb)
                    if not rows[s_ + 1:e_]:
                        hit("viewer_append_to_empty")
                    if w["src"] is None:
                        w["src"] = o["src"]
                    hit("viewer_append")
                    log.append([kind, len(comb)])
                else:
                    exp, obs = viewer_query(w, op, sut, ids)
                    hit("viewer_query")
                    if s_ != -1:
                        hit("viewer_query_on_child")
                    log.append(["vq", op["kind"], obs])
                    if cj(exp) != cj(obs):
                        violation = {"step": step, "cls": f"viewer:{op['kind']}", "detail": {"op": op, "expected": exp, "observed": obs,
                                                                                             "range": [s_, e_], "rows": rows}}
            elif kind == "q":
                h = pick_holder(op["h"])
                if h.get("dup") and op["kind"] in ("access_label_col", "block_indices", "read_block", "read_block_with", "boundary", "access_list"):
                    continue
                exp, obs, skipped = run_query(h, op, sut, hit, states, trans)
                if skipped:
                    continue
                log.append(["q", op["kind"], obs])
                if cj(exp) != cj(obs):
                    violation = vio(step, f"query:{op['kind']}", op, exp, obs, h)
            else:
                continue
        except Quit:
            violation = {"step": step, "cls": f"quit:{op.get('kind', kind)}", "detail": {"op": op, "error": "error_and_quit / SystemExit"}}
        except Exception as e:  # noqa
            violation = {"step": step, "cls": f"exception:{op.get('kind', kind)}",
                         "detail": {"op": op, "error": f"{type(e).__name__}: {str(e)[:300]}"}}
        if violation:
            break
        # ---- layer 2 after every step: fresh extraction of every live holder == model
        for hi, h in enumerate(holders):
            try:
                ext = extract(h["dm"])
            except Exception as e:  # noqa
                violation = {"step": step, "cls": "extract_failed", "detail": {"op": op, "error": repr(e)[:300]}}
                break
            if ext.cols != h["model"].cols or cj(ext.rows) != cj(h["model"].rows):
                violation = {"step": step, "cls": f"content:{kind}", "detail": {
                    "op": op, "holder": hi, "origin": h["origin"],
                    "expected": {"cols": h["model"].cols, "rows": h["model"].rows},
                    "observed": {"cols": ext.cols, "rows": ext.rows}}}
                break
            if not ext.is_range():
                hit("nonrange_index")
            if any(v is None for _, r in ext.rows for v in r.values()):
                hit("nan_cell")
        if violation:
            break
    if save_dir[0]:
        import shutil
        shutil.rmtree(save_dir[0], ignore_errors=True)
    return {"violation": violation, "probes": probes, "states": states, "trans": trans,
            "steps": len(trace["ops"]), "log": digest_hex([log, violation])}


def gir_wellformed(rows):
    """the input contract of GIRBlockViewer: every row has a stmt id and an operation, ids are unique except for a
    block_start ... block_end pair sharing the block id, blocks are properly nested and closed."""
    seen, stack = {}, []
    for r in rows:
        sid, op_ = r.get("stmt_id"), r.get("operation")
        if sid is None or op_ is None:
            return False
        if sid in seen and not (seen[sid] == "block_start" and op_ == "block_end"):
            return False
        if sid in seen and seen[sid] == "closed":
            return False
        if op_ == "block_start":
            stack.append(sid)
            seen[sid] = "block_start"
        elif op_ == "block_end":
            if not stack or stack[-1] != sid:
                return False
            stack.pop()
            seen[sid] = "closed"
        else:
            seen[sid] = "stmt"
    return not stack


def block_range(rows, b):
    idx = [i for i, r in enumerate(rows) if r["stmt_id"] == b]
    if len(idx) == 2 and rows[idx[0]]["operation"] == "block_start" and rows[idx[1]]["operation"] == "block_end":
        return idx[0], idx[1]
    return None


def _vrow(stmt):
    if stmt is None:
        return None
    d = stmt.to_dict()
    return {str(c): cell(v) for c, v in d.items() if cell(v) is not None}


def _mrow(r):
    return {c: v for c, v in r.items() if v is not None}


def viewer_query(w, op, sut, ids):
    """-> (expected by a scan of the rows the viewer was built from, restricted to its visible range; observed)"""
    v, rows, s_, e_ = w["v"], w["rows"], w["s"], w["e"]
    vis = rows[s_ + 1:e_]
    kind = op["kind"]
    first_index = {}
    for i, r in enumerate(rows):
        first_index.setdefault(r["stmt_id"], i)
    if kind == "len":
        return len(vis), sut(lambda: len(v))
    if kind == "iterate":
        return [_mrow(r) for r in vis], [_vrow(x) for x in sut(lambda: list(v))]
    if kind == "getitem":
        i = op["i"]
        n = len(vis)
        exp = _mrow(vis[i]) if -n <= i < n else "IndexError"
        try:
            obs = _vrow(sut(lambda: v[i]))
        except IndexError:
            obs = "IndexError"
        return exp, obs
    if kind == "getslice":
        sl = slice(*op["sl"])
        return [_mrow(r) for r in vis[sl]], [_vrow(x) for x in sut(lambda: v[sl])]
    if kind in ("contains_stmt_id", "stmt_by_id", "block_stmt_ids"):
        sid = ids[op["sid"] % len(ids)] if ids and op["sid"] % 4 else op["sid"]
        fi = first_index.get(sid)
        visible = fi is not None and s_ < fi < e_
        if kind == "contains_stmt_id":
            return visible, bool(sut(lambda: v.contains_stmt_id(sid)))
        if kind == "stmt_by_id":
            return (_mrow(rows[fi]) if visible else None), _vrow(sut(lambda: v.get_stmt_by_id(sid)))
        br = block_range(rows, sid)
        exp = [rows[i]["stmt_id"] for i in range(br[0] + 1, br[1])] if br else []
        return exp, [cell(x) for x in sut(lambda: v.get_block_stmt_ids(sid))]
    if kind == "all_stmt_ids":
        return sorted({r["stmt_id"] for r in vis}), [cell(x) for x in sut(lambda: v.get_all_stmt_ids())]
    if kind == "stmt_by_pos":
        i = op["i"]
        return (_mrow(rows[i]) if (0 <= i < len(rows) and s_ < i < e_) else None), _vrow(sut(lambda: v.get_stmt_by_pos(i)))
    if kind == "query_operation":
        return [_mrow(r) for r in vis if r.get("operation") == op["operation"]], [_vrow(x) for x in sut(lambda: v.query_operation(op["operation"]))]
    if kind == "query_field":
        f, val = op["field"], op["value"]
        return [_mrow(r) for r in vis if r.get(f) is not None and r.get(f) == val], [_vrow(x) for x in sut(lambda: v.query_field(f, val))]
    if kind == "boundary":
        bs = [ids[b % len(ids)] if ids and b % 3 else b for b in op["bs"]]
        ends = [block_range(rows, b)[1] for b in bs if block_range(rows, b)]
        return max(ends) if ends else -1, int(sut(lambda: v.boundary_of_multi_blocks(list(bs))))
    return None, None


def vio(step, cls, op, exp, obs, h):
    return {"step": step, "cls": cls, "detail": {"op": op, "expected": exp, "observed": obs,
                                                  "table": {"cols": h["model"].cols, "rows": h["model"].rows},
                                                  "last_mutation_since_query": h["mut"], "origin": h["origin"]}}


def src_state(h, states, qkind):
    dm = h["dm"]
    n = len(h["model"].rows)
    # measure only (peeks at private attributes; degrades gracefully if they disappear - DataModel.__getattr__ turns a missing
    # attribute into a column lookup, i.e. a KeyError, so a plain getattr default is not enough)
    try:
        built = bool(dm.__dict__.get("_column_indexer"))
        dirty = bool(dm.__dict__.get("_need_refresh_rows"))
    except Exception:  # noqa
        built = dirty = False
    states.add(h64(f"{min(n, 5)}|{h['model'].is_range()}|{built}|{dirty}|{h['origin']}"))


def note_query(h, qkind, hit, trans):
    if h["mut"]:
        hit("q_mut_q")
        hit({"append": "q_after_append", "remove_rows": "q_after_remove", "modify_element": "q_after_modify_element",
             "modify_row": "q_after_modify_row", "modify_column": "q_after_modify_column",
             "rename_column": "q_after_rename", "set_columns": "q_after_rename", "fillna": "q_after_fillna", "reset_index": "q_after_reset_index"}[h["mut"]])
        trans.add(h64(f"{h['mut']}->{qkind}"))
        if qkind in INDEX_QUERIES and h.get("last_index_q"):
            hit("index_query_repeat")
    h["queried"] = True
    if qkind in INDEX_QUERIES:
        h["last_index_q"] = True


def run_query(h, op, sut, hit, states, trans):
    """-> (expected from naive scan of the model (== fresh extraction, by layer 2), observed, skipped)"""
    dm, m = h["dm"], h["model"]
    kind = op["kind"]
    n = len(m.rows)
    cols = m.cols
    mat = [dict(r) for _, r in m.rows]
    labels = m.labels()
    col = op.get("col")
    if col is not None and col not in cols:
        return None, None, True
    if isinstance(op.get("v"), int) and not isinstance(op.get("v"), bool) and abs(op["v"]) >= 2 ** 63:
        hit("huge_int_query")
    if col == "flag":
        hit("bool_column_query")
        if op.get("v") is False:
            hit("bool_column_query_for_false")
    if n >= 10000 and kind in ("qidx", "qval", "qfirst", "bundle_search"):
        hit("indexed_query_on_10k_rows")
        if labels != list(range(n)):
            hit("indexed_query_on_10k_rows_labels_not_positions")
    if kind in ("block_indices", "read_block", "read_block_with", "boundary") and "stmt_id" not in cols:
        return None, None, True
    src_state(h, states, kind)
    exp = obs = None
    if kind == "len":
        exp, obs = n, sut(lambda: len(dm))
    elif kind == "iterate":
        exp = [[l, r] for l, r in m.rows]
        obs = sut(lambda: dm_rows(dm))
    elif kind == "access":
        i = op["i"]
        exp = mat[i] if 0 <= i < n else None
        obs = row_cells(sut(lambda: dm.access(i)), cols)
    elif kind == "access_list":
        exp = [mat[i] if 0 <= i < n else None for i in op["is"]]
        obs = [row_cells(r, cols) for r in sut(lambda: dm.access(list(op["is"])))]
    elif kind == "access_label_col":
        if not n:
            return None, None, True
        i = op["i"] % n
        exp = mat[i][col]
        obs = cell(sut(lambda: dm.access(labels[i], col)))
    elif kind == "access_column":
        exp = [r[col] for r in mat]
        obs = [cell(x) for x in sut(lambda: list(dm.access_column(col)))]
    elif kind == "get_rows":
        exp = m.matrix()
        obs = [[cell(x) for x in row] for row in sut(lambda: dm.get_rows())]
        if not cols:
            obs = [[] for _ in obs]
    elif kind == "unique":
        exp = sorted({r[col] for r in mat if r[col] is not None}, key=repr)
        obs = sorted({cell(x) for x in sut(lambda: dm.unique_values_of_column(col))} - {None}, key=repr)
    elif kind == "dict_list":
        exp = [{c: v for c, v in r.items() if v is not None} for r in mat]
        obs = [{str(c): cell(v) for c, v in d.items()} for d in sut(lambda: dm.convert_to_dict_list())]
    elif kind in ("qidx", "qfirst", "bundle_search", "slow_query_first", "slow_query"):
        v = op["v"]
        pos = m.positions(col, v, scan=kind in ("slow_query_first", "slow_query"))
        if v == "":
            hit("asked_for_empty_string")
        if len(pos) > 1:
            hit("dup_value_hit")
        if kind == "qidx":
            exp = pos
            obs = [int(x) for x in sut(lambda: dm.query_index_column_value_indices(col, v))]
        elif kind == "qfirst":
            exp = mat[pos[0]] if pos else None
            obs = row_cells(sut(lambda: dm.query_index_column_value_first(col, v)), cols)
        elif kind == "bundle_search":
            if v is None:
                return None, None, True
            exp = pos
            obs = sorted(int(x) for x in sut(lambda: dm.access_column(col).bundle_search(v)))
        elif kind == "slow_query_first":
            if v is None:
                return None, None, True
            exp = mat[pos[0]] if pos else None
            obs = row_cells(sut(lambda: dm.slow_query_first(dm.access_column(col) == v)), cols)
        else:
            if v is None:
                return None, None, True
            exp = [[i, mat[p]] for i, p in enumerate(pos)]
            obs = sut(lambda: dm_rows(dm.slow_query(dm.access_column(col).isin([v]))))
    elif kind == "block_indices":
        exp = m.positions("stmt_id", op["b"])
        obs = [int(x) for x in sut(lambda: dm.search_block_start_end_indics(op["b"]))]
    elif kind in ("read_block", "read_block_with"):
        pos = m.positions("stmt_id", op["b"])
        ok = (len(pos) == 2) if kind == "read_block" else (len(pos) >= 2)
        if ok:
            hit("block_query_hit")
            if kind == "read_block":
                rows = m.rows[pos[0] + 1: pos[1]]
            else:
                rows = m.rows[pos[0]: pos[1] + 1]
            if op["reset"]:
                rows = [[i, r] for i, (_, r) in enumerate(rows)]
            exp = [[l, r] for l, r in rows]
            f = dm.read_block if kind == "read_block" else dm.read_block_with_block_stmts
            obs = sut(lambda: dm_rows(f(op["b"], reset_index=op["reset"])))
        else:
            exp = "not-found"
            f = dm.read_block if kind == "read_block" else dm.read_block_with_block_stmts
            try:
                r = sut(lambda: f(op["b"], reset_index=op["reset"]))
                obs = "not-found" if (isinstance(r, list) and not r) or (isinstance(r, _DM) and len(r) == 0 and kind == "read_block_with") else dm_rows(r)
            except Quit:
                obs = "not-found"
    elif kind == "boundary":
        ids = [-1]
        for b in op["bs"]:
            if b is not None:
                ids.extend(m.positions("stmt_id", b))
        exp = max(ids)
        obs = int(sut(lambda: dm.boundary_of_multi_blocks(list(op["bs"]))))
    else:
        return None, None, True
    # positions must be valid for the current table
    if kind in ("qidx", "bundle_search", "block_indices") and isinstance(obs, list):
        if any((p < 0 or p >= n) for p in obs):
            obs = {"invalid_positions": obs, "len": n}
    note_query(h, kind, hit, trans)
    return exp, obs, False


# ----------------------------------------------------------------------------- signature / simplification

def signature(trace, violation):
    cls = violation["cls"]
    d = violation.get("detail", {})
    mut = d.get("last_mutation_since_query")
    muts = sorted({op["op"] for op in trace["ops"] if op["op"] in MUTATIONS})
    cons = sorted({op["op"] for op in trace["ops"] if op["op"] in CONSTRUCTIONS and op["op"] != "new"})
    return f"{cls}|after={mut}|muts={','.join(muts)}|cons={','.join(cons)}"


def simplify(trace):
    ops = trace["ops"]
    for i, op in enumerate(ops):
        if op["op"] in ("new", "append") and op.get("rows"):
            rows = op["rows"]
            for j in range(len(rows)):
                yield dict(trace, ops=ops[:i] + [dict(op, rows=rows[:j] + rows[j + 1:])] + ops[i + 1:])
        if op["op"] == "new" and op.get("columns") is not None:
            yield dict(trace, ops=ops[:i] + [dict(op, columns=None)] + ops[i + 1:])
        if op.get("h"):
            yield dict(trace, ops=ops[:i] + [dict(op, h=0)] + ops[i + 1:])
    for i, op in enumerate(ops):
        if op["op"] in ("new", "append") and op.get("rows"):
            rows = op["rows"]
            for j, r in enumerate(rows):
                for c in list(r):
                    if c in ("stmt_id", "operation"):
                        continue
                    r2 = {kk: vv for kk, vv in r.items() if kk != c}
                    yield dict(trace, ops=ops[:i] + [dict(op, rows=rows[:j] + [r2] + rows[j + 1:])] + ops[i + 1:])
