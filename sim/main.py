"""Entry point: ./check <ID> [--tier quick|thorough] [--replay FILE] [--seed N] [--budget S] [--runs N]"""
import argparse
import atexit
import os
import sys

HERE = os.path.dirname(os.path.abspath(__file__))
VERIF_DIR = os.path.dirname(HERE)
if VERIF_DIR not in sys.path:
    sys.path.insert(0, VERIF_DIR)

from sim import core  # noqa: E402


def main():
    ap = argparse.ArgumentParser()
    ap.add_argument("property")
    ap.add_argument("--tier", default=os.environ.get("VERIF_TIER", "quick"), choices=["quick", "thorough"])
    ap.add_argument("--seed", type=int, default=None)
    ap.add_argument("--budget", type=float, default=None)
    ap.add_argument("--runs", type=int, default=None)
    ap.add_argument("--replay", default=None)
    ap.add_argument("--machine", action="store_true")
    ap.add_argument("--digests", default=None)
    args = ap.parse_args()
    pid = args.property.upper()

    if os.environ.get("LIAN_SIM_PINNED") != "1":
        # re-exec under a fully pinned environment (one integer decides everything)
        core.scratch_root()
        env = core.pinned_env()
        import subprocess
        try:
            rc = subprocess.call([core.PYTHON, "-B", os.path.abspath(__file__)] + sys.argv[1:], env=env)
        finally:
            core.cleanup_scratch()
        if rc < 0 or rc > 2:
            print(f"HARNESS-ERROR property={pid}: check process ended with status {rc}", file=sys.stderr)
            rc = 2
        sys.exit(rc)

    seed = args.seed if args.seed is not None else int(os.environ.get("VERIF_SEED", "0") or 0)
    if args.replay:
        sys.exit(core.run_replay(pid, args.replay, machine=args.machine))
    if args.digests:
        lo, hi = args.digests.split(":")
        sys.exit(core.run_digests(pid, args.tier, seed, int(lo), int(hi)))
    sys.exit(core.run_batch(pid, args.tier, seed, budget_s=args.budget, n_runs=args.runs))


if __name__ == "__main__":
    main()
