"""Entry point: ./check <ID> [--tier quick|thorough] [--replay FILE] [--seed N] [--budget S] [--runs N]"""
import argparse
import atexit
import os
import sys

HERE = os.path.dirname(os.path.abspath(__file__))
VERIF_DIR = os.path.dirname(HERE)
if VERIF_DIR not in sys.path:
    sys.path.insert(0, VERIF_DIR)

from sim import core  # noqa: E402


def main():
    ap = argparse.ArgumentParser()
    ap.add_argument("property")
    ap.add_argument("--tier", default=os.environ.get("VERIF_TIER", "quick"), choices=["quick", "thorough"])
    ap.add_argument("--seed", type=int, default=None)
    ap.add_argument("--budget", type=float, default=None)
    ap.add_argument("--runs", type=int, default=None)
    ap.add_argument("--replay", default=None)
    ap.add_argument("--machine", action="store_true")
    ap.add_argument("--digests", default=None)
    args = ap.parse_args()
    pid = args.property.upper()

    if os.environ.get("LIAN_SIM_PINNED") != "1":
        # re-exec under a fully pinned environment (one integer decides everything)
        import json
        import subprocess
        import tempfile
        core.scratch_root()
        rc = 2
        try:
            extra = {}
            if args.replay:
                # a replay file records the interpreter-level environment variant it was found under
                try:
                    extra = {k: str(v) for k, v in (json.load(open(args.replay)).get("env") or {}).items()}
                    if extra:
                        extra["VERIF_VARIANT_ENV"] = json.dumps(extra)
                except Exception:  # noqa
                    extra = {}
            rc = subprocess.call([core.PYTHON, "-B", os.path.abspath(__file__)] + sys.argv[1:], env=core.pinned_env(extra))
            if rc < 0 or rc > 2:
                print(f"HARNESS-ERROR property={pid}: check process ended with status {rc}", file=sys.stderr)
                rc = 2
            # ---- environment variants: a smaller batch of the same check in an interpreter started differently
            if not args.replay and not args.digests and not os.environ.get("VERIF_NO_VARIANTS"):
                try:
                    variants = getattr(core.load_engine(pid), "ENV_VARIANTS", [])
                except Exception:  # noqa
                    variants = []
                summaries = []
                for var in variants:
                    evdir = tempfile.mkdtemp(prefix="variant-ev-", dir=core.scratch_root())
                    venv = dict(var["env"])
                    venv.update({"VERIF_VARIANT_ENV": json.dumps(var["env"]), "VERIF_VARIANT_NAME": var["name"],
                                 "VERIF_RUNS": str(var["runs"].get(args.tier, 100)), "VERIF_EVIDENCE_DIR": evdir,
                                 "VERIF_NO_SELFTEST": "1", "VERIF_BUDGET_S": str(var.get("budget_s", 300))})
                    argv = [a for a in sys.argv[1:]]
                    for flag in ("--runs", "--budget"):
                        if flag in argv:
                            i = argv.index(flag)
                            del argv[i:i + 2]
                    rc2 = subprocess.call([core.PYTHON, "-B", os.path.abspath(__file__)] + argv, env=core.pinned_env(venv))
                    if rc2 < 0 or rc2 > 2:
                        rc2 = 2
                    summ = {"name": var["name"], "env": var["env"], "exit": rc2}
                    try:
                        ev = json.load(open(os.path.join(evdir, f"{pid}.json")))
                        summ.update({"evaluations": ev["coverage"]["evaluations"], "violations": ev.get("violations", 0),
                                     "wall_s": ev["wall_s"], "known_findings_hit": ev["coverage"].get("known_findings_hit", {})})
                    except Exception:  # noqa
                        pass
                    summaries.append(summ)
                    rc = 1 if 1 in (rc, rc2) else max(rc, rc2)
                if summaries:
                    evp = os.path.join(core.EVIDENCE_DIR, f"{pid}.json")
                    try:
                        ev = json.load(open(evp))
                        ev["coverage"]["env_variants"] = summaries
                        ev["violations"] = ev.get("violations", 0) + sum(x.get("violations", 0) for x in summaries)
                        with open(evp + ".tmp", "w") as f:
                            json.dump(ev, f, indent=1, sort_keys=True)
                        os.replace(evp + ".tmp", evp)
                    except Exception as e:  # noqa
                        print(f"HARNESS-ERROR property={pid}: cannot merge variant evidence: {e!r}", file=sys.stderr)
                        rc = rc or 2
        finally:
            core.cleanup_scratch()
        sys.exit(rc)

    seed = args.seed if args.seed is not None else int(os.environ.get("VERIF_SEED", "0") or 0)
    if args.replay:
        sys.exit(core.run_replay(pid, args.replay, machine=args.machine))
    if args.digests:
        lo, hi = args.digests.split(":")
        sys.exit(core.run_digests(pid, args.tier, seed, int(lo), int(hi)))
    sys.exit(core.run_batch(pid, args.tier, seed, budget_s=args.budget, n_runs=args.runs))


if __name__ == "__main__":
    main()
