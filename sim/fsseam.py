"""File-system seam for simulated lian processes: an audit hook that sees every mutating file-system event BEFORE
it happens (open-for-write, mkdir, unlink, rmdir, rename, symlink, link, truncate, chmod, utime, shutil.*, subprocess),
checks the containment invariants, injects faults (I/O errors, crash = os._exit at the k-th mutating event) and
refuses anything outside the simulated world so a buggy lian cannot damage the sandbox; plus a snapshot helper
(type, size, sha256, mode, link target of every path) for the before/after comparison.
"""
import errno
import hashlib
import os
import stat
import sys

WRITE_FLAGS = os.O_WRONLY | os.O_RDWR | os.O_APPEND | os.O_CREAT | os.O_TRUNC

# event -> (role of each path argument).  'w' = created/written (final symlink followed), 'd' = removed (the name itself),
# 'm' = metadata change, 'r' = read only
_SPEC = {
    "os.mkdir": [("w_name", 0, 2)],
    "os.rmdir": [("d", 0, 1)],
    "os.remove": [("d", 0, 1)],
    "os.rename": [("d", 0, 2), ("w_name", 1, 3)],
    "os.symlink": [("w_name", 1, 2)],
    "os.link": [("w_name", 1, 3)],
    "os.truncate": [("w", 0, None)],
    "os.chmod": [("m", 0, 2)],
    "os.chown": [("m", 0, 3)],
    "os.utime": [("m", 0, 3)],
    "shutil.rmtree": [("d", 0, 1)],
    "shutil.copyfile": [("w", 1, None)],
    "shutil.copymode": [("m", 1, None)],
    "shutil.copystat": [("m", 1, None)],
    "shutil.move": [("d", 0, None), ("w_name", 1, None)],
    "shutil.copytree": [("w_name", 1, None)],
}


def _inside(p, root):
    return p == root or p.startswith(root.rstrip("/") + "/")


class Seam:
    def __init__(self, cfg):
        """cfg: R (world root), W (workspace real path or None), allow (list of prefixes always allowed, e.g. HOME, TMPDIR),
        force (bool), preexisting (set of real paths that existed before the run), faults (list), max_events (int)"""
        self.cfg = cfg
        self.R = cfg["R"]
        self.W = cfg.get("W")
        self.allow = [a for a in cfg.get("allow", [])]
        self.force = cfg.get("force", False)
        self.pre = cfg.get("preexisting", set())
        self.faults = list(cfg.get("faults", []))
        self.seq = 0
        self.events = []          # [seq, event, role, masked path]
        self.violations = []      # dicts
        self.fired = []
        self.counts = {}
        self.copy_srcs = []
        self.spawned = []
        self.active = True
        self.max_events = cfg.get("max_events", 20000)

    # ------------------------------------------------------------------ path resolution
    def _abs(self, path, dir_fd):
        if isinstance(path, int):
            return None
        p = os.fsdecode(path)
        if dir_fd is not None and isinstance(dir_fd, int) and not os.path.isabs(p):
            try:
                p = os.path.join(os.readlink(f"/proc/self/fd/{dir_fd}"), p)
            except OSError:
                pass
        return os.path.abspath(p)

    def _resolve(self, path, dir_fd, follow_final):
        """where the operation would land, resolved the way the KERNEL walks the path: '..' is taken from a directory that
        exists, symlinks are followed, and a missing intermediate component means the operation fails with ENOENT (then
        there is nothing to judge: None).  os.path.realpath would normalise 'missing/../x' lexically to 'x'."""
        p = self._abs(path, dir_fd)
        if p is None:
            return None
        # os.path.abspath already collapsed 'a/../b' lexically; redo it from the raw string
        raw = os.fsdecode(path)
        if dir_fd is not None and isinstance(dir_fd, int) and not os.path.isabs(raw):
            try:
                raw = os.path.join(os.readlink(f"/proc/self/fd/{dir_fd}"), raw)
            except OSError:
                pass
        if not os.path.isabs(raw):
            raw = os.path.join(os.getcwd(), raw)
        comps = [c for c in raw.split("/") if c not in ("", ".")]
        cur = "/"
        for i, c in enumerate(comps):
            last = i == len(comps) - 1
            if c == "..":
                cur = os.path.dirname(cur)
                continue
            nxt = os.path.join(cur, c)
            if os.path.islink(nxt) and (not last or follow_final):
                target = os.path.realpath(nxt)
                if not os.path.exists(target) and not last:
                    return None
                cur = target
            elif os.path.lexists(nxt):
                if not last and not os.path.isdir(nxt):
                    return None          # ENOTDIR
                cur = nxt
            else:
                if not last:
                    return None          # ENOENT: a missing intermediate directory
                cur = nxt
        return cur

    def mask(self, p):
        if p is None:
            return None
        if self.W and _inside(p, self.W):
            return "<W>" + p[len(self.W):]
        if _inside(p, self.R):
            return "<R>" + p[len(self.R):]
        return p

    # ------------------------------------------------------------------ the hook
    def hook(self, event, args):
        if not self.active:
            return
        if event == "open":
            path, mode, flags = args[0], args[1], args[2]
            if isinstance(path, int) or flags is None or not (flags & WRITE_FLAGS):
                return
            self._mutation(event, "w", self._resolve(path, None, True), src=None)
            return
        if event in ("subprocess.Popen", "os.system", "os.exec", "os.posix_spawn", "os.spawn"):
            self.spawned.append([event, str(args[0])[:80]])
            self.counts["spawn"] = self.counts.get("spawn", 0) + 1
            return
        spec = _SPEC.get(event)
        if spec is None:
            return
        for role, idx, fd_idx in spec:
            if idx >= len(args):
                continue
            dir_fd = args[fd_idx] if (fd_idx is not None and fd_idx < len(args)) else None
            follow = role == "w"
            rp = self._resolve(args[idx], dir_fd, follow)
            src = None
            if event == "shutil.copyfile":
                src = os.path.realpath(os.fsdecode(args[0]))
            self._mutation(event, role[0], rp, src)

    def _mutation(self, event, role, rp, src):
        if rp is None:
            return
        self.active = False          # no re-entrancy while we look at the file system ourselves
        try:
            self.seq += 1
            seq = self.seq
            self.counts[event] = self.counts.get(event, 0) + 1
            if len(self.events) < 4000:
                self.events.append([seq, event, role, self.mask(rp)])
            if src is not None:
                self.copy_srcs.append(src)
                # I4 online: more copies out of the inputs than there are eligible input files -> stop right here
                roots = self.cfg.get("input_roots")
                if roots is not None and any(_inside(src, r) or src == r for r in roots):
                    self.n_input_copies = getattr(self, "n_input_copies", 0) + 1
                    if self.n_input_copies > self.cfg.get("max_input_copies", 10 ** 9):
                        self.violations.append({"seq": seq, "event": event, "cls": "I4:unbounded_copy", "path": self.mask(rp)})
                        self._flush_and_die()
            if event == "os.mkdir" and self.cfg.get("src_root") and _inside(rp, self.cfg["src_root"]):
                self.n_src_dirs = getattr(self, "n_src_dirs", 0) + 1
                if self.n_src_dirs > self.cfg.get("max_src_dirs", 10 ** 9):
                    self.violations.append({"seq": seq, "event": event, "cls": "I4:unbounded_copy", "path": self.mask(rp)})
                    self._flush_and_die()
            # ---- containment invariants, checked BEFORE the operation happens
            allowed_extra = any(_inside(rp, a) for a in self.allow) or rp in ("/dev/null",)
            inW = self.W is not None and _inside(rp, self.W) and rp != self.W
            if not allowed_extra:
                bad = None
                if not inW:
                    if rp == self.W and role in ("w", "m"):
                        pass      # creating / touching the workspace directory itself
                    elif event == "os.mkdir" and self.W is not None and _inside(self.W, rp):
                        pass      # a missing ancestor of the workspace directory (os.makedirs)
                    elif role in ("w", "m"):
                        bad = "I1:create_or_write_outside_workspace"
                    else:
                        bad = "I2:delete_outside_workspace"
                elif role == "d" and rp in self.pre and not self.force:
                    bad = "I2:delete_preexisting_without_force"
                elif role == "w" and rp in self.pre and not self.force and event == "open":
                    bad = "I2:overwrite_preexisting_without_force"
                if bad:
                    if len(self.violations) < 20:
                        self.violations.append({"seq": seq, "event": event, "cls": bad, "path": self.mask(rp)})
                    # never let it happen: the simulated world (and the sandbox around it) stays intact
                    raise PermissionError(errno.EPERM, f"lian-sim containment: {bad}", rp)
            # ---- fault plan
            for f in self.faults:
                if f.get("done"):
                    continue
                kind = f["kind"]
                if kind == "crash_at_event" and seq == f["k"]:
                    f["done"] = True
                    self.fired.append([kind, seq, event])
                    self._flush_and_die()
                if kind == "interrupt_at_event" and seq == f["k"]:
                    # Ctrl-C: unlike a crash, the exception travels through every except / finally / context manager on the stack
                    f["done"] = True
                    self.fired.append([kind, seq, event])
                    raise KeyboardInterrupt()
                if kind == "eio_on_copy" and event == "shutil.copyfile":
                    f["n"] = f.get("n", 0) + 1
                    if f["n"] == f["k"]:
                        f["done"] = True
                        self.fired.append([kind, seq, event])
                        raise OSError(errno.EIO, "Input/output error (injected)", rp)
                if kind == "enospc_on_write" and event == "open":
                    f["n"] = f.get("n", 0) + 1
                    if f["n"] == f["k"]:
                        f["done"] = True
                        self.fired.append([kind, seq, event])
                        raise OSError(errno.ENOSPC, "No space left on device (injected)", rp)
                if kind == "eacces_on_mkdir" and event == "os.mkdir":
                    f["n"] = f.get("n", 0) + 1
                    if f["n"] == f["k"]:
                        f["done"] = True
                        self.fired.append([kind, seq, event])
                        raise PermissionError(errno.EACCES, "Permission denied (injected)", rp)
            if seq > self.max_events:
                self.violations.append({"seq": seq, "event": event, "cls": "I4:unbounded_events", "path": self.mask(rp)})
                self._flush_and_die()
        finally:
            self.active = True

    def _flush_and_die(self):
        cb = self.cfg.get("on_die")
        if cb:
            cb(self)
        os._exit(77)

    def install(self):
        sys.addaudithook(self.hook)


# ---------------------------------------------------------------------------------------------- snapshots

def snapshot(root, skip=()):
    """{path: (type, size, sha256|target, mode)} for every path under root (symlinks not followed)."""
    out = {}
    skip = [s.rstrip("/") for s in skip]
    stack = [root]
    while stack:
        d = stack.pop()
        try:
            names = sorted(os.listdir(d))
        except OSError:
            continue
        for n in names:
            p = os.path.join(d, n)
            if any(_inside(p, s) for s in skip):
                continue
            try:
                st = os.lstat(p)
            except OSError:
                continue
            if stat.S_ISLNK(st.st_mode):
                out[p] = ("l", 0, os.readlink(p), 0)
            elif stat.S_ISDIR(st.st_mode):
                out[p] = ("d", 0, "", stat.S_IMODE(st.st_mode))
                stack.append(p)
            elif stat.S_ISREG(st.st_mode):
                h = hashlib.sha256()
                try:
                    with open(p, "rb") as f:
                        for chunk in iter(lambda: f.read(65536), b""):
                            h.update(chunk)
                    dig = h.hexdigest()
                except OSError:
                    dig = "unreadable"
                out[p] = ("f", st.st_size, dig, stat.S_IMODE(st.st_mode))
            else:
                out[p] = ("o", 0, "", 0)
    return out
