"""lian-sim core: seeds, traces, minimisation, replay files, worker pool with watchdog,
known-findings handling and evidence output.

Everything random is derived from ONE integer (VERIF_SEED).  Run i of property P uses
seed_i = blake2b("P/VERIF_SEED/i").  generate() is the only consumer of the PRNG;
execute() draws nothing, so a replay file (a pure-data trace) replays exactly.

Exit codes of a check: 0 = property held on everything explored (KNOWN-FINDING lines
allowed), 1 = violation (a line "VIOLATION property=<id> replay=<path>" is printed),
2 = harness error (never reported as held, never as a violation).
"""
import faulthandler
import hashlib
import importlib
import json
import math
import multiprocessing
import os
import random
import shutil
import subprocess
import sys
import tempfile
import time
import traceback
from collections import Counter
from concurrent.futures import ProcessPoolExecutor, as_completed
from concurrent.futures.process import BrokenProcessPool

VERIF_DIR = os.path.dirname(os.path.dirname(os.path.abspath(__file__)))
REPO_SRC = os.environ.get("VERIF_REPO_SRC", "/repo/src")
REPO_DIR = os.path.dirname(REPO_SRC.rstrip("/"))
PYTHON = "/venv/bin/python"
KNOWN_FILE = os.path.join(VERIF_DIR, "KNOWN_FINDINGS.txt")
EVIDENCE_DIR = os.environ.get("VERIF_EVIDENCE_DIR") or os.path.join(VERIF_DIR, "evidence")
REPLAY_DIR = os.path.join(VERIF_DIR, "replays")

EXIT_OK, EXIT_VIOLATION, EXIT_HARNESS = 0, 1, 2


# --------------------------------------------------------------------------- seeds / digests

def derive_seed(pid, batch_seed, i):
    h = hashlib.blake2b(f"{pid}/{batch_seed}/{i}".encode(), digest_size=8).digest()
    return int.from_bytes(h, "big")


def _default(o):
    if isinstance(o, (set, frozenset)):
        return sorted(o, key=lambda x: json.dumps(x, sort_keys=True, default=_default))
    if isinstance(o, tuple):
        return list(o)
    if isinstance(o, bytes):
        return {"__bytes__": o.hex()}
    try:
        import numpy
        if isinstance(o, numpy.generic):
            return o.item()
        if isinstance(o, numpy.ndarray):
            return o.tolist()
    except ImportError:
        pass
    return repr(o)


def canon_json(obj):
    return json.dumps(obj, sort_keys=True, separators=(",", ":"), default=_default, allow_nan=True)


def digest_hex(obj, size=8):
    return hashlib.blake2b(canon_json(obj).encode(), digest_size=size).hexdigest()


def h64(s):
    """stable 64-bit hash of a string (never Python's hash())."""
    return int.from_bytes(hashlib.blake2b(s.encode(), digest_size=8).digest(), "big")


# --------------------------------------------------------------------------- scratch space

def scratch_root():
    """Per-invocation scratch directory (removed at exit by the top-level process)."""
    r = os.environ.get("LIAN_SIM_SCRATCH_DIR")
    if r and os.path.isdir(r):
        return r
    base = os.environ.get("VERIF_SCRATCH")
    if not base:
        base = "/dev/shm" if os.path.isdir("/dev/shm") and os.access("/dev/shm", os.W_OK) else tempfile.gettempdir()
    r = tempfile.mkdtemp(prefix="lian-sim-", dir=base)
    os.environ["LIAN_SIM_SCRATCH_DIR"] = r
    os.environ["LIAN_SIM_SCRATCH_OWNER"] = str(os.getpid())
    return r


def cleanup_scratch():
    r = os.environ.get("LIAN_SIM_SCRATCH_DIR")
    if r and os.environ.get("LIAN_SIM_SCRATCH_OWNER") == str(os.getpid()):
        shutil.rmtree(r, ignore_errors=True)
        # the temporary directories the runs used on the machine's other file system
        for base in {os.environ.get("LIAN_SIM_OTHER_FS") or "/tmp", os.environ.get("TMPDIR") or "/tmp", "/tmp"}:
            shutil.rmtree(os.path.join(base, "lian-sim-other-" + os.path.basename(r.rstrip("/"))), ignore_errors=True)


def pinned_env(extra=None, hashseed="0"):
    root = scratch_root()
    home = os.path.join(root, "home")
    os.makedirs(home, exist_ok=True)
    env = {
        "PATH": "/usr/local/bin:/usr/bin:/bin",
        "HOME": home,
        "MPLCONFIGDIR": os.path.join(home, "mpl"),
        "PYTHONPATH": REPO_SRC + os.pathsep + VERIF_DIR,
        "PYTHONHASHSEED": str(hashseed),
        "PYTHONDONTWRITEBYTECODE": "1",
        "OPENBLAS_NUM_THREADS": "1",
        "OMP_NUM_THREADS": "1",
        "ARROW_DEFAULT_MEMORY_POOL": "system",
        "MKL_NUM_THREADS": "1",
        "LC_ALL": "C.UTF-8",
        "LANG": "C.UTF-8",
        "TZ": "UTC",
        "LIAN_VERIF": "1",
        "LIAN_SIM_PINNED": "1",
        "LIAN_SIM_SCRATCH_DIR": root,
        "LIAN_SIM_SCRATCH_OWNER": os.environ.get("LIAN_SIM_SCRATCH_OWNER", ""),
        "VERIF_REPO_SRC": REPO_SRC,
    }
    for k in ("VERIF_SEED", "VERIF_TIER", "VERIF_BUDGET_S", "VERIF_SCRATCH", "VERIF_WORKERS",
              "VERIF_RUNS", "VERIF_P_INVIVO", "VERIF_VARIANT_ENV", "VERIF_VARIANT_NAME", "PYTHONOPTIMIZE", "VERIF_EVIDENCE_DIR", "VERIF_NO_CONFIRM", "VERIF_NO_SELFTEST", "VERIF_DEBUG", "TMPDIR", "VERIF_C14_ONLY", "VERIF_INVIVO_BIG"):
        if k in os.environ:
            env[k] = os.environ[k]
    if extra:
        env.update(extra)
    return env


def prepare_lian_imports():
    """Make lian importable in this process exactly as the checks need it."""
    import builtins
    if not hasattr(builtins, "profile"):
        builtins.profile = lambda f: f
    if REPO_SRC not in sys.path:
        sys.path.insert(0, REPO_SRC)


# --------------------------------------------------------------------------- engines

def load_engine(pid):
    return importlib.import_module(f"checks.{pid.lower()}")


def make_trace(engine, batch_seed, i, tier):
    seed = derive_seed(engine.PID, batch_seed, i)
    rng = random.Random(seed)
    knobs = engine.gen_knobs(rng, tier)
    if getattr(engine, "STRATIFY", False):
        knobs["run_index"] = i          # engines may stratify rare dimensions over the run index (still a function of the seed + i)
    ops = engine.generate(rng, knobs)
    t = {"property": engine.PID, "batch_seed": batch_seed, "run": i, "seed": seed, "knobs": knobs, "ops": ops}
    if os.environ.get("VERIF_VARIANT_ENV"):
        # the interpreter-level environment this run was executed under (e.g. PYTHONOPTIMIZE=1); --replay re-creates it
        t["env"] = json.loads(os.environ["VERIF_VARIANT_ENV"])
    return t


def safe_execute(engine, trace):
    """Run one trace.  Returns (result, harness_error)."""
    try:
        res = engine.execute(trace)
        return res, None
    except BaseException as e:  # noqa - includes SystemExit from lian's error_and_quit
        if isinstance(e, KeyboardInterrupt):
            raise
        return None, "".join(traceback.format_exception(type(e), e, e.__traceback__))[-4000:]


# --------------------------------------------------------------------------- minimisation

def stop_flag_path():
    return os.path.join(scratch_root(), "stop-exploring.flag")


def _same_class(engine, trace, ops, cls, counter, limit):
    if counter[0] >= limit[0] or time.time() > limit[1]:
        return None
    if counter[0] > 8 and os.path.exists(stop_flag_path()):
        return None          # another worker's violation has already been reported: finish this minimisation quickly
    counter[0] += 1
    t = dict(trace)
    t["ops"] = ops
    res, err = safe_execute(engine, t)
    if err or res is None:
        return None
    v = res.get("violation")
    if v and v.get("cls") == cls:
        return v
    return None


def minimise(engine, trace, violation, max_tests=1500, max_seconds=30.0):
    """ddmin over the op list, then engine-specific argument simplification, keeping only
    candidates that fail in the same violation class."""
    cls = violation["cls"]
    counter = [0]
    limit = (max_tests, time.time() + max_seconds)
    ops = list(trace["ops"])
    best_v = violation
    # 1. drop everything after the violating step
    step = violation.get("step")
    if isinstance(step, int) and 0 <= step < len(ops) - 1:
        cand = ops[:step + 1]
        v = _same_class(engine, trace, cand, cls, counter, limit)
        if v:
            ops, best_v = cand, v
    # 2. ddmin
    n = 2
    while len(ops) >= 2:
        chunk = int(math.ceil(len(ops) / n))
        subsets = [ops[i:i + chunk] for i in range(0, len(ops), chunk)]
        reduced = False
        for i in range(len(subsets)):
            comp = [x for j, s in enumerate(subsets) if j != i for x in s]
            v = _same_class(engine, trace, comp, cls, counter, limit)
            if v:
                ops, best_v = comp, v
                n = max(n - 1, 2)
                reduced = True
                break
        if not reduced:
            if n >= len(ops):
                break
            n = min(len(ops), n * 2)
        if counter[0] >= limit[0] or time.time() > limit[1]:
            break
    # 2b. single-op removal to fixpoint (cheap, catches what ddmin granularity misses)
    changed = True
    while changed and len(ops) > 1:
        changed = False
        for i in range(len(ops) - 1, -1, -1):
            comp = ops[:i] + ops[i + 1:]
            v = _same_class(engine, trace, comp, cls, counter, limit)
            if v:
                ops, best_v = comp, v
                changed = True
                break
    t = dict(trace)
    t["ops"] = ops
    # 3. engine-specific simplification of arguments / knobs
    simplify = getattr(engine, "simplify", None)
    if simplify:
        progress = True
        while progress:
            progress = False
            for cand in simplify(t):
                if counter[0] >= limit[0] or time.time() > limit[1]:
                    break
                counter[0] += 1
                res, err = safe_execute(engine, cand)
                if err or res is None:
                    continue
                v = res.get("violation")
                if v and v.get("cls") == cls:
                    t, best_v = cand, v
                    progress = True
                    break
    t["minimised"] = {"tests": counter[0], "from_ops": len(trace["ops"]), "to_ops": len(t["ops"])}
    t["violation"] = best_v
    return t, best_v


# --------------------------------------------------------------------------- known findings

def load_known(pid):
    """-> {signature: what} for 'finding:' lines of this property."""
    known = {}
    if not os.path.exists(KNOWN_FILE):
        return known
    for line in open(KNOWN_FILE, encoding="utf-8"):
        line = line.strip()
        if not line.startswith("finding:"):
            continue
        fields = {}
        rest = line[len("finding:"):].strip()
        # property=<id> sig=<sig> what=<free text to end of line>
        what = ""
        if " what=" in rest:
            rest, what = rest.split(" what=", 1)
        for tok in rest.split():
            if "=" in tok:
                k, v = tok.split("=", 1)
                fields[k] = v
        if fields.get("property") == pid and "sig" in fields:
            known[fields["sig"]] = what
    return known


# --------------------------------------------------------------------------- worker

_ENGINE = None


def private_tmpdir():
    """Every process of the simulator (pool worker, replay, digest run) has its OWN temporary directory: the workers run in
    parallel, and code under test that goes through fixed names in the temporary directory must not couple them (two
    processes sharing a machine are simulated on purpose, under a seeded scheduler - see checks/c14.py - never by accident).
    The machine's original temporary directory stays available as LIAN_SIM_OTHER_FS (another file system than the scratch)."""
    import tempfile
    os.environ.setdefault("LIAN_SIM_OTHER_FS", os.environ.get("TMPDIR") or "/tmp")
    d = os.path.join(scratch_root(), f"tmp-{os.getpid()}")
    os.makedirs(d, exist_ok=True)
    os.environ["TMPDIR"] = d
    tempfile.tempdir = d
    return d


def select_tmp(kind):
    """per run: the private temporary directory of this process lies on the scratch file system ("scratch", where the
    simulated workspaces are) or on the machine's other file system ("other": rename / replace from there into a workspace
    crosses a device boundary)."""
    import tempfile
    base = private_tmpdir()
    if kind == "other":
        # below a directory named after the scratch root, so that the top-level process removes it together with the scratch
        other = os.path.join(os.environ.get("LIAN_SIM_OTHER_FS") or "/tmp", "lian-sim-other-" + os.path.basename(scratch_root().rstrip("/")),
                             f"tmp-{os.getpid()}")
        try:
            os.makedirs(other, exist_ok=True)
            _OTHER_TMP.add(other)
            base = other
        except OSError:
            pass
    os.environ["TMPDIR"] = base
    tempfile.tempdir = base
    return base


_OTHER_TMP = set()


def _remove_other_tmp():
    import shutil
    for d in list(_OTHER_TMP):
        shutil.rmtree(d, ignore_errors=True)


import atexit  # noqa: E402
atexit.register(_remove_other_tmp)


def _worker_init(pid):
    global _ENGINE
    private_tmpdir()
    prepare_lian_imports()
    _ENGINE = load_engine(pid)
    if hasattr(_ENGINE, "setup_worker"):
        _ENGINE.setup_worker()


_HISTORY = []          # run indices this worker process has executed so far (a violation may need what ran before it)


def _work_chunk(pid, batch_seed, indices, tier, want_digests, per_run_timeout, max_violations):
    engine = _ENGINE
    out = {
        "evaluations": 0, "steps": 0, "probes": Counter(), "faults": Counter(),
        "nontrivial": set(), "states": set(), "trans": set(), "populations": Counter(),
        "violations": {}, "harness_errors": [], "digests": {}, "samples": [],
        "extra": Counter(), "outcomes": Counter(), "raw_violations": Counter(), "unminimised": Counter(),
    }
    min_per_cls = Counter()
    unknown_seen = Counter()
    known = load_known(engine.PID)
    max_min_per_cls = getattr(engine, "MIN_PER_CLS", 3)
    for i in indices:
        if os.path.exists(stop_flag_path()):
            break            # the batch already has an unlisted violation; the parent has stopped submitting work
        faulthandler.dump_traceback_later(per_run_timeout, exit=True)
        try:
            trace = make_trace(engine, batch_seed, i, tier)
            res, err = safe_execute(engine, trace)
        finally:
            faulthandler.cancel_dump_traceback_later()
        history_before = list(_HISTORY)
        _HISTORY.append(i)
        out["evaluations"] += 1
        if err:
            out["harness_errors"].append({"run": i, "error": err})
            continue
        out["steps"] += res.get("steps", len(trace["ops"]))
        out["probes"].update(res.get("probes", {}))
        out["faults"].update(res.get("faults", {}))
        out["extra"].update(res.get("extra", {}))
        out["populations"][trace["knobs"].get("population", "default")] += 1
        if res.get("outcome"):
            out["outcomes"][res["outcome"]] += 1
        out["states"].update(res.get("states", ()))
        out["trans"].update(res.get("trans", ()))
        if any(res.get("probes", {}).values()):
            out["nontrivial"].add(h64(canon_json([trace["knobs"], trace["ops"]])))
        if want_digests:
            out["digests"][i] = res.get("log", "")
        if len(out["samples"]) < 2 and trace["ops"]:
            out["samples"].append({"run": i, "seed": trace["seed"], "knobs": trace["knobs"],
                                   "ops": trace["ops"][:12], "ops_total": len(trace["ops"])})
        v = res.get("violation")
        if v:
            cls = v.get("cls", "?")
            out["raw_violations"][cls] += 1
            # a signature that does not depend on the minimal trace (engine.presignature) classifies the run at once
            pre = engine.presignature(trace, v) if hasattr(engine, "presignature") else None
            if pre is not None and pre in known and pre in out["violations"]:
                out["violations"][pre]["count"] += 1
                continue
            if not known and not os.path.exists(stop_flag_path()):
                # no findings are listed for this property, so this is an unlisted violation: tell the other workers to wind
                # down while this one is minimised (with listed findings only the parent can tell, after minimisation)
                try:
                    open(stop_flag_path(), "w").close()
                except OSError:
                    pass
            # minimisation is capped per class only once an UNKNOWN signature of that class exists in this chunk
            # (the batch fails anyway); while everything seen is a listed known finding, every violation is minimised
            if min_per_cls[cls] >= max_min_per_cls and unknown_seen[cls]:
                out["unminimised"][cls] += 1
                continue
            min_per_cls[cls] += 1
            faulthandler.dump_traceback_later(per_run_timeout * 20 + 120, exit=True)
            try:
                mt, mv = minimise(engine, trace, v,
                                  max_tests=getattr(engine, "MIN_TESTS", 1500),
                                  max_seconds=getattr(engine, "MIN_SECONDS", 30.0))
            finally:
                faulthandler.cancel_dump_traceback_later()
            sig = engine.signature(mt, mv)
            mt["signature"] = sig
            # what this process had executed before: if the minimised trace alone does not fail in a fresh process, the replay
            # re-creates this history first (state of the code under test that survives from one use to the next)
            mt["history"] = {"batch_seed": batch_seed, "tier": tier, "indices": history_before[-400:], "original_index": i,
                             "cls": mv.get("cls") if isinstance(mv, dict) else None}
            if sig not in known:
                unknown_seen[cls] = True
            cur = out["violations"].get(sig)
            if cur is None:
                if len(out["violations"]) < max_violations:
                    out["violations"][sig] = {"trace": mt, "count": 1}
            else:
                cur["count"] += 1
                if len(mt["ops"]) < len(cur["trace"]["ops"]):
                    cur["trace"] = mt
    # make picklable / compact
    out["probes"] = dict(out["probes"])
    out["faults"] = dict(out["faults"])
    out["extra"] = dict(out["extra"])
    out["populations"] = dict(out["populations"])
    out["outcomes"] = dict(out["outcomes"])
    out["raw_violations"] = dict(out["raw_violations"])
    out["unminimised"] = dict(out["unminimised"])
    return out


# --------------------------------------------------------------------------- batch driver

def n_workers():
    w = os.environ.get("VERIF_WORKERS")
    if w:
        return max(1, int(w))
    return max(1, min(16, os.cpu_count() or 1))


def run_batch(pid, tier, batch_seed, budget_s=None, n_runs=None):
    t0 = time.time()
    prepare_lian_imports()
    engine = load_engine(pid)
    cfg = engine.TIERS[tier]
    if os.path.exists(stop_flag_path()):
        os.remove(stop_flag_path())
    if n_runs is None:
        n_runs = int(os.environ.get("VERIF_RUNS", 0)) or cfg.get("runs")
    if budget_s is None:
        budget_s = float(os.environ.get("VERIF_BUDGET_S", 0)) or cfg.get("budget_s", 600)
    chunk = cfg.get("chunk", 200)
    if n_runs:
        chunk = max(1, min(chunk, n_runs // (n_workers() * 3) or 1))     # small batches are spread over all workers
    per_run_timeout = cfg.get("per_run_timeout", 120)
    workers = min(n_workers(), cfg.get("max_workers", 16))
    selftest_n = 0 if os.environ.get("VERIF_NO_SELFTEST") else cfg.get("selftest", 0)
    if os.environ.get("VERIF_VARIANT_NAME"):
        print(f"[lian-sim] environment variant {os.environ['VERIF_VARIANT_NAME']}: {os.environ.get('VERIF_VARIANT_ENV')}", flush=True)
    print(f"[lian-sim] property={pid} tier={tier} VERIF_SEED={batch_seed} workers={workers} "
          f"runs={'budgeted' if not n_runs else n_runs} budget_s={budget_s:.0f} repo_src={REPO_SRC}", flush=True)

    agg = {
        "evaluations": 0, "steps": 0, "probes": Counter(), "faults": Counter(), "extra": Counter(),
        "nontrivial": set(), "states": set(), "trans": set(), "populations": Counter(), "outcomes": Counter(),
        "violations": {}, "harness_errors": [], "digests": {}, "samples": [],
        "raw_violations": Counter(), "unminimised": Counter(),
    }
    known = load_known(pid)
    deadline = t0 + budget_s
    budget_exhausted = False
    next_index = 0
    harness_fail = None

    def submit(ex, lo, hi):
        want = lo < selftest_n
        return ex.submit(_work_chunk, pid, batch_seed, list(range(lo, hi)), tier, want,
                         per_run_timeout, 8)

    ctx = multiprocessing.get_context("fork")
    try:
        with ProcessPoolExecutor(max_workers=workers, mp_context=ctx, initializer=_worker_init,
                                 initargs=(pid,)) as ex:
            pending = set()
            def more():
                nonlocal next_index
                if n_runs and next_index >= n_runs:
                    return None
                lo = next_index
                hi = lo + chunk
                if selftest_n and lo < selftest_n:
                    hi = min(hi, selftest_n)
                if n_runs:
                    hi = min(hi, n_runs)
                next_index = hi
                return submit(ex, lo, hi)
            for _ in range(workers * 2):
                f = more()
                if f is None:
                    break
                pending.add(f)
            while pending:
                done = next(as_completed(pending))
                pending.discard(done)
                part = done.result()
                _merge(agg, part)
                if time.time() < deadline:
                    # stop exploring as soon as a violation that is not a listed known finding has been found
                    if not all(sig in known for sig in agg["violations"]) and not os.path.exists(stop_flag_path()):
                        open(stop_flag_path(), "w").close()
                    if all(sig in known for sig in agg["violations"]):
                        f = more()
                        if f is not None:
                            pending.add(f)
                else:
                    if not n_runs or next_index < n_runs:
                        budget_exhausted = True
    except BrokenProcessPool as e:
        harness_fail = f"worker process died (watchdog timeout or crash): {e}"
    except Exception as e:  # noqa
        harness_fail = "".join(traceback.format_exception(type(e), e, e.__traceback__))

    # ---- determinism self-test: same seeds again in a fresh interpreter under another hash seed
    selftest = {"runs": 0, "mismatches": 0}
    if selftest_n and not harness_fail and agg["digests"]:
        idx = sorted(agg["digests"])
        try:
            out = subprocess.run(
                [PYTHON, "-B", os.path.join(VERIF_DIR, "sim", "main.py"), pid, "--digests",
                 f"{idx[0]}:{idx[-1] + 1}", "--tier", tier, "--seed", str(batch_seed)],
                env=pinned_env(hashseed="4242"), capture_output=True, text=True, timeout=600)
            other = json.loads(out.stdout.strip().splitlines()[-1])
            for i in idx:
                selftest["runs"] += 1
                if other.get(str(i)) != agg["digests"][i]:
                    selftest["mismatches"] += 1
            if selftest["mismatches"]:
                harness_fail = (f"determinism self-test: {selftest['mismatches']}/{selftest['runs']} runs "
                                f"differ between pool worker (PYTHONHASHSEED=0) and fresh interpreter (4242)")
        except Exception as e:  # noqa
            harness_fail = f"determinism self-test could not run: {e!r}"

    # ---- classify violations
    os.makedirs(REPLAY_DIR, exist_ok=True)
    unknown, known_hit = [], Counter()
    items = []
    for sig, rec in sorted(agg["violations"].items()):
        trace = rec["trace"]
        path = os.path.join(REPLAY_DIR, f"{pid}-{hashlib.blake2b(sig.encode(), digest_size=6).hexdigest()}.json")
        with open(path, "w") as f:
            # key order is part of a trace (e.g. the column order of a table built from row dicts): never sort keys here
            json.dump(trace, f, indent=1, default=_default)
        items.append((sig, path, rec))
    # confirm every known-signature hit and up to MAX_CONFIRM unknown ones in fresh processes (in parallel)
    max_confirm = 6
    to_confirm = [it for it in items if it[0] in known] + [it for it in items if it[0] not in known][:max_confirm]
    confirmed = {}
    if os.environ.get("VERIF_NO_CONFIRM"):
        confirmed = {it[0]: True for it in to_confirm}
    elif to_confirm:
        from concurrent.futures import ThreadPoolExecutor
        with ThreadPoolExecutor(max_workers=min(8, len(to_confirm))) as tp:
            for (sig, path, rec), ok in zip(to_confirm, tp.map(lambda it: _confirm_in_fresh_process(pid, it[1], it[0]), to_confirm)):
                confirmed[sig] = ok
    unconfirmed_extra = 0
    for sig, path, rec in items:
        if sig not in confirmed:
            unconfirmed_extra += 1
            continue
        if not confirmed[sig]:
            harness_fail = (harness_fail or "") + f"\nviolation sig={sig} did not reproduce in a fresh process (replay={path})"
            continue
        if sig in known:
            known_hit[sig] += rec["count"]
            print(f"KNOWN-FINDING: property={pid} {known[sig]} [sig={sig} hits={rec['count']} sample={path}]")
        else:
            unknown.append((sig, path, rec))
    if unconfirmed_extra:
        print(f"[lian-sim] {unconfirmed_extra} further distinct violation signature(s) were found and written to {REPLAY_DIR} "
              f"but not re-confirmed (limit {max_confirm})")
    for sig, path, rec in unknown:
        v = rec["trace"].get("violation", {})
        print(f"VIOLATION property={pid} replay={path}")
        print(f"  signature: {sig}")
        print(f"  class: {v.get('cls')}  step: {v.get('step')}  hits: {rec['count']}  ops: {len(rec['trace']['ops'])}")
        print(f"  detail: {canon_json(v.get('detail'))[:1500]}")
    for he in agg["harness_errors"][:5]:
        print(f"HARNESS-ERROR property={pid} run={he['run']}\n{he['error']}", file=sys.stderr)
    if agg["harness_errors"]:
        harness_fail = (harness_fail or "") + f"\n{len(agg['harness_errors'])} run(s) raised harness exceptions"

    wall = time.time() - t0
    zero_probes = [p for p in getattr(engine, "PROBES", []) if not agg["probes"].get(p)]
    cov = {
        "evaluations": agg["evaluations"],
        "distinct_nontrivial": len(agg["nontrivial"]),
        "rule": engine.RULE,
        "samples": agg["samples"][:3],
        "states": len(agg["states"]),
        "transitions": len(agg["trans"]),
        "state_measure": getattr(engine, "STATE_MEASURE", ""),
        "steps_total": agg["steps"],
        "runs_per_hour": int(agg["evaluations"] / max(wall, 1e-6) * 3600),
        "seeds": {"batch_seed": batch_seed, "first_run": 0, "last_run": max(next_index - 1, 0),
                  "derivation": "seed_i = blake2b('<property>/<VERIF_SEED>/<i>')[:8]"},
        "simulated_time": getattr(engine, "SIMULATED_TIME", "not applicable: the code under test reads no clock and has no timers; the unit of "
                                  "progress is the logical step (steps_total)"),
        "faults_fired": dict(sorted(agg["faults"].items())),
        "probes": dict(sorted(agg["probes"].items())),
        "probes_at_zero": zero_probes,
        "populations": dict(sorted(agg["populations"].items())),
        "outcomes": dict(sorted(agg["outcomes"].items())),
        "extra": dict(sorted(agg["extra"].items())),
        "real_components": getattr(engine, "REAL", []),
        "stubbed_components": getattr(engine, "STUBS", []),
        "selftest_runs": selftest["runs"],
        "selftest_mismatches": selftest["mismatches"],
        "known_findings_hit": dict(known_hit),
        "violating_runs_by_class": dict(agg["raw_violations"]),
        "violating_runs_not_minimised": dict(agg["unminimised"]),
        "budget_exhausted": budget_exhausted,
        "workers": workers,
        "harness_error": harness_fail,
        "exhaustive": False,
    }
    if hasattr(engine, "finalize_coverage"):
        engine.finalize_coverage(cov, agg)
    ev = {
        "property_id": pid, "tier": tier, "seed": int(batch_seed), "level": "exploration",
        "coverage": cov, "assumptions": getattr(engine, "ASSUMPTIONS", []),
        "wall_s": round(wall, 2), "violations": len(unknown),
    }
    os.makedirs(EVIDENCE_DIR, exist_ok=True)
    tmp = os.path.join(EVIDENCE_DIR, f".{pid}.json.tmp")
    with open(tmp, "w") as f:
        json.dump(ev, f, indent=1, sort_keys=True, default=_default)
    os.replace(tmp, os.path.join(EVIDENCE_DIR, f"{pid}.json"))

    print(f"[lian-sim] {pid}: runs={agg['evaluations']} steps={agg['steps']} distinct_nontrivial={len(agg['nontrivial'])} "
          f"states={len(agg['states'])} transitions={len(agg['trans'])} faults={dict(agg['faults'])} "
          f"selftest={selftest['runs']}/{selftest['mismatches']} mismatches wall={wall:.1f}s", flush=True)
    if zero_probes:
        print(f"[lian-sim] WARNING probes stuck at zero: {zero_probes}", flush=True)
    if harness_fail:
        print(f"HARNESS-ERROR property={pid}: {harness_fail}", file=sys.stderr, flush=True)
        return EXIT_VIOLATION if unknown else EXIT_HARNESS
    if unknown:
        return EXIT_VIOLATION
    print(f"[lian-sim] {pid}: property held on everything explored"
          + (f" ({sum(known_hit.values())} hits of {len(known_hit)} known finding(s))" if known_hit else ""), flush=True)
    return EXIT_OK


def _merge(agg, part):
    agg["evaluations"] += part["evaluations"]
    agg["steps"] += part["steps"]
    for k in ("probes", "faults", "extra", "populations", "outcomes", "raw_violations", "unminimised"):
        agg[k].update(part[k])
    for k in ("nontrivial", "states", "trans"):
        agg[k] |= part[k]
    agg["harness_errors"].extend(part["harness_errors"])
    agg["digests"].update(part["digests"])
    if len(agg["samples"]) < 3:
        agg["samples"].extend(part["samples"])
    for sig, rec in part["violations"].items():
        cur = agg["violations"].get(sig)
        if cur is None:
            agg["violations"][sig] = rec
        else:
            cur["count"] += rec["count"]
            if len(rec["trace"]["ops"]) < len(cur["trace"]["ops"]):
                cur["trace"] = rec["trace"]


def _confirm_in_fresh_process(pid, path, sig):
    try:
        out = subprocess.run([PYTHON, "-B", os.path.join(VERIF_DIR, "sim", "main.py"), pid, "--replay", path,
                              "--machine"], env=pinned_env(), capture_output=True, text=True, timeout=900)
        for line in out.stdout.splitlines():
            if line.startswith("REPLAY-RESULT "):
                r = json.loads(line[len("REPLAY-RESULT "):])
                return bool(r.get("violation")) and r.get("signature") == sig
    except Exception:  # noqa
        return False
    return False


# --------------------------------------------------------------------------- replay / digests

def run_replay(pid, path, machine=False):
    private_tmpdir()
    prepare_lian_imports()
    engine = load_engine(pid)
    if hasattr(engine, "setup_worker"):
        engine.setup_worker()
    trace = json.load(open(path))
    res, err = safe_execute(engine, trace)
    if err:
        print(f"HARNESS-ERROR property={pid} replay={path}\n{err}", file=sys.stderr)
        if machine:
            print("REPLAY-RESULT " + json.dumps({"violation": False, "harness_error": True}))
        return EXIT_HARNESS
    v = res.get("violation")
    sig = engine.signature(trace, v) if v else None
    hist = trace.get("history") or {}
    if not v and hist.get("indices") and os.environ.get("VERIF_REPLAY_NO_HISTORY") != "1":
        # the trace alone holds: replay it the way it was found - after the runs the finding process had executed before it
        # (this is a NEW process: the history is executed from scratch, then the original, unminimised run)
        for i_ in hist["indices"]:
            safe_execute(engine, make_trace(engine, hist["batch_seed"], i_, hist.get("tier", "quick")))
        orig = make_trace(engine, hist["batch_seed"], hist["original_index"], hist.get("tier", "quick"))
        res2, err2 = safe_execute(engine, orig)
        v2 = (res2 or {}).get("violation") if not err2 else None
        if v2 and (hist.get("cls") is None or v2.get("cls") == hist.get("cls")):
            v, res = v2, res2
            sig = trace.get("signature") or engine.signature(orig, v2)
            print(f"[lian-sim] replay {path}: the violation needs the {len(hist['indices'])} runs the finding process executed before "
                  f"(state of the code under test that survives from one use to the next); reproduced with that history",
                  file=sys.stderr if machine else sys.stdout)
    if machine:
        print("REPLAY-RESULT " + json.dumps({"violation": bool(v), "signature": sig, "log": res.get("log")}))
        return EXIT_VIOLATION if v else EXIT_OK
    if not v:
        print(f"[lian-sim] replay {path}: no violation (property held on this trace)")
        return EXIT_OK
    known = load_known(pid)
    print(f"REPRODUCED property={pid} class={v.get('cls')} step={v.get('step')} signature={sig}")
    print(f"  detail: {canon_json(v.get('detail'))[:3000]}")
    if sig in known:
        print(f"KNOWN-FINDING: property={pid} {known[sig]} [sig={sig}]")
        return EXIT_OK
    print(f"VIOLATION property={pid} replay={path}")
    return EXIT_VIOLATION


def run_digests(pid, tier, batch_seed, lo, hi):
    private_tmpdir()
    prepare_lian_imports()
    engine = load_engine(pid)
    if hasattr(engine, "setup_worker"):
        engine.setup_worker()
    out = {}
    # REVERSE order: a run whose outcome depends on what the same process executed before it (state leaking from one run
    # into the next) then shows up as a digest mismatch against the pool workers, which go through the indices upwards
    for i in range(hi - 1, lo - 1, -1):
        trace = make_trace(engine, batch_seed, i, tier)
        res, err = safe_execute(engine, trace)
        out[str(i)] = res.get("log", "") if res else "ERR"
    print(json.dumps(out))
    return 0
