"""Feather I/O seam: pandas.DataFrame.to_feather / pandas.read_feather are the only way lian's loaders touch the
disk.  The wrapper serialises with the REAL Arrow writer into memory first (so Arrow conversion behaviour - and its
failures - stay real) and then decides what reaches the file according to the fault plan of the current operation.

Fault kinds (never silent: the caller always gets an OSError):
  write_enospc  file is created empty, OSError(ENOSPC)
  write_torn    the first k bytes reach the file, OSError(EIO)
  read_eio      the read raises OSError(EIO)
"""
import errno
import io
import os

_installed = False
_orig_to_feather = None
_orig_read_feather = None

STATE = {
    "plan": [],          # faults for the current op: {"kind":..., "nth": n, "frac": 0..1}
    "writes": 0, "reads": 0,          # counters within the current op
    "fired": [],         # faults fired within the current op: (kind, path)
    "events": [],        # (w|r, basename, nbytes|None, fault|None) for the whole run
    "total_writes": 0, "total_reads": 0,
    "arrow_errors": 0,
}


def install():
    global _installed, _orig_to_feather, _orig_read_feather
    if _installed:
        return
    import pandas as pd
    _orig_to_feather = pd.DataFrame.to_feather
    _orig_read_feather = pd.read_feather

    def to_feather(self, path, **kwargs):
        if not isinstance(path, (str, os.PathLike)):
            return _orig_to_feather(self, path, **kwargs)
        n = STATE["writes"]
        STATE["writes"] += 1
        STATE["total_writes"] += 1
        fault = next((f for f in STATE["plan"] if f["kind"].startswith("write") and f["nth"] == n), None)
        buf = io.BytesIO()
        try:
            _orig_to_feather(self, buf, **kwargs)
        except Exception:
            # a REAL serialisation failure (Arrow cannot convert the frame): behave like the real call, which
            # creates/truncates the file before failing
            STATE["arrow_errors"] += 1
            open(path, "wb").close()
            STATE["events"].append(("w", os.path.basename(str(path)), 0, "arrow_error"))
            raise
        data = buf.getvalue()
        if fault is None:
            with open(path, "wb") as f:
                f.write(data)
            STATE["events"].append(("w", os.path.basename(str(path)), len(data), None))
            return None
        STATE["fired"].append((fault["kind"], os.path.basename(str(path))))
        if fault["kind"] == "write_enospc":
            open(path, "wb").close()
            STATE["events"].append(("w", os.path.basename(str(path)), 0, "write_enospc"))
            if fault.get("plain"):
                # the same text for every file, like pyarrow's own errors (which do not name the path)
                raise OSError(errno.ENOSPC, "No space left on device (injected)")
            raise OSError(errno.ENOSPC, "No space left on device (injected)", str(path))
        k = max(1, min(len(data) - 1, int(len(data) * fault.get("frac", 0.5))))
        with open(path, "wb") as f:
            f.write(data[:k])
        STATE["events"].append(("w", os.path.basename(str(path)), k, "write_torn"))
        if fault.get("plain"):
            raise OSError(errno.EIO, "Input/output error (injected, torn write)")
        raise OSError(errno.EIO, "Input/output error (injected, torn write)", str(path))

    def read_feather(path, *args, **kwargs):
        n = STATE["reads"]
        STATE["reads"] += 1
        STATE["total_reads"] += 1
        fault = next((f for f in STATE["plan"] if f["kind"] == "read_eio" and f["nth"] == n), None)
        if fault is not None:
            STATE["fired"].append(("read_eio", os.path.basename(str(path))))
            STATE["events"].append(("r", os.path.basename(str(path)), None, "read_eio"))
            raise OSError(errno.EIO, "Input/output error (injected)", str(path))
        STATE["events"].append(("r", os.path.basename(str(path)), None, None))
        return _orig_read_feather(path, *args, **kwargs)

    pd.DataFrame.to_feather = to_feather
    pd.read_feather = read_feather
    _installed = True


def begin_run():
    STATE["plan"] = []
    STATE["writes"] = STATE["reads"] = 0
    STATE["fired"] = []
    STATE["events"] = []
    STATE["total_writes"] = STATE["total_reads"] = 0
    STATE["arrow_errors"] = 0


def begin_op(plan):
    STATE["plan"] = list(plan or [])
    STATE["writes"] = STATE["reads"] = 0
    STATE["fired"] = []
    STATE["arrow_errors_op"] = STATE["arrow_errors"]
    STATE["op_event_start"] = len(STATE["events"])


def op_events():
    return STATE["events"][STATE.get("op_event_start", 0):]


def end_op():
    fired = list(STATE["fired"])
    STATE["plan"] = []
    return fired, STATE["writes"], STATE["reads"], STATE["arrow_errors"] - STATE.get("arrow_errors_op", 0)
