"""Canonical forms: the only place where 'equal content' is defined.

canon(x) maps saved objects and returned objects to plain JSON-able structures.  It is deliberately blind to
  * container type (list / tuple / ndarray -> list; set / frozenset -> sorted list),
  * numeric dtype (numpy scalars -> Python, integral floats -> int),
  * the difference between None / NaN / pandas NA,
  * the order of things that are sets or graph edge collections,
and to nothing else.  It works on the OBJECTS the public API takes and returns (dataclass fields, graph edges,
dict/set contents, table rows), never on a loader's private flattened rows.
"""
import dataclasses
import json
import math


def _np():
    import numpy
    return numpy


def _sort_key(x):
    return json.dumps(x, sort_keys=True, default=repr)


def canon(x, _depth=0):
    np = _np()
    if _depth > 40:
        return "<deep>"
    if x is None:
        return None
    if isinstance(x, (bool, np.bool_)):
        return bool(x)
    if isinstance(x, (int, np.integer)):
        return int(x)
    if isinstance(x, (float, np.floating)):
        f = float(x)
        if math.isnan(f):
            return None
        return int(f) if f.is_integer() and abs(f) < 2 ** 53 else f
    if isinstance(x, str):
        return x
    if isinstance(x, bytes):
        return {"__bytes__": x.hex()}
    if isinstance(x, (list, tuple)):
        return [canon(v, _depth + 1) for v in x]
    if isinstance(x, np.ndarray):
        return [canon(v, _depth + 1) for v in x.tolist()] if x.dtype != object else [canon(v, _depth + 1) for v in x]
    if isinstance(x, (set, frozenset)):
        return sorted((canon(v, _depth + 1) for v in x), key=_sort_key)
    if isinstance(x, dict):
        items = [[canon(k, _depth + 1), canon(v, _depth + 1)] for k, v in x.items()]
        items.sort(key=lambda kv: _sort_key(kv[0]))
        return {"__map__": items}
    # lian tables
    tn = type(x).__name__
    if tn == "DataModel":
        rows = []
        for r in x:
            d = r.to_dict()
            rows.append({str(k): canon(v, _depth + 1) for k, v in d.items() if canon(v, _depth + 1) is not None})
        return {"__table__": rows}
    if tn == "Row":
        d = x.to_dict()
        return {"__row__": {str(k): canon(v, _depth + 1) for k, v in d.items() if canon(v, _depth + 1) is not None}}
    # graphs
    try:
        import networkx as nx
        if isinstance(x, nx.Graph):
            edges = []
            for u, v, d in x.edges(data=True):
                edges.append([canon(u, _depth + 1), canon(v, _depth + 1), canon(d.get("weight"), _depth + 1)])
            edges.sort(key=_sort_key)
            return {"__graph__": edges}
    except ImportError:
        pass
    if hasattr(x, "graph") and tn in ("CallGraph", "BasicGraph", "ControlFlowGraph", "SymbolGraph", "StateFlowGraph",
                                       "BasicCallGraph", "StateGraph"):
        return canon(x.graph, _depth + 1)
    if tn == "SymbolStateSpace":
        return {"__space__": [canon(e, _depth + 1) for e in x.space]}
    if tn == "BitVectorManager":
        return {"__bvm__": canon(x.bit_pos_to_id, _depth + 1), "counter": canon(x.counter)}
    if tn == "CallSite":
        return {"__callsite__": [canon(x.caller_id), canon(x.call_stmt_id), canon(x.callee_id)]}
    if tn == "SFGNode":
        return {"__sfgnode__": canon(x.to_tuple(), _depth + 1)}
    if dataclasses.is_dataclass(x) and not isinstance(x, type):
        out = {"__cls__": tn}
        for f in dataclasses.fields(x):
            out[f.name] = canon(getattr(x, f.name), _depth + 1)
        return out
    try:
        import pandas as pd
        if x is pd.NA or x is pd.NaT:
            return None
    except ImportError:
        pass
    if hasattr(x, "__dict__"):
        return {"__obj__": tn, "attrs": {k: canon(v, _depth + 1) for k, v in sorted(vars(x).items())
                                          if not k.startswith("_") and not callable(v)}}
    return repr(x)


def canon_json(x):
    return json.dumps(canon(x), sort_keys=True, separators=(",", ":"))


def tokens(c, out=None):
    """all 'token-like' leaves of a canonical structure, as strings: ints with |v| >= 1000 and strings containing 'tk'.
    Numeric strings count like their number ('12001' == 12001) because several loaders stringify values."""
    if out is None:
        out = set()
    if isinstance(c, bool) or c is None:
        return out
    if isinstance(c, int):
        if abs(c) >= 1000:
            out.add(str(c))
    elif isinstance(c, float):
        pass
    elif isinstance(c, str):
        s = c
        if "tk" in s:
            # a string may embed several tokens (json / literal encodings): split on non-token characters
            cur = ""
            for ch in s:
                if ch.isalnum() or ch == "_":
                    cur += ch
                else:
                    if "tk" in cur:
                        out.add(cur)
                    elif cur.lstrip("-").isdigit() and abs(int(cur)) >= 1000:
                        out.add(str(int(cur)))
                    cur = ""
            if "tk" in cur:
                out.add(cur)
            elif cur.lstrip("-").isdigit() and abs(int(cur)) >= 1000:
                out.add(str(int(cur)))
        else:
            cur = ""
            for ch in s + " ":
                if ch.isdigit() or (ch == "-" and not cur):
                    cur += ch
                else:
                    if cur.lstrip("-").isdigit() and abs(int(cur)) >= 1000:
                        out.add(str(int(cur)))
                    cur = ""
    elif isinstance(c, list):
        for v in c:
            tokens(v, out)
    elif isinstance(c, dict):
        for k, v in c.items():
            if k in ("__cls__", "__obj__"):
                continue
            tokens(v, out)
    return out
