"""Canonical forms: the only place where 'equal content' is defined.

canon(x) maps saved objects and returned objects to plain JSON-able structures.  It is deliberately blind to
  * container type (list / tuple / ndarray / range -> list; set / frozenset -> sorted list; dict, table Row and plain
    attribute objects -> map; a table -> list of row maps),
  * numeric dtype (numpy scalars -> Python, integral floats -> int),
  * the difference between None / NaN / pandas NA / a missing key / an empty container as a map value,
  * the order of things that are sets or graph edge collections,
and to nothing else.  It works on the OBJECTS the public API takes and returns (dataclass fields, graph edges,
dict/set contents, table rows), never on a loader's private flattened rows.

canon_guided(observed, expected) additionally sorts a list in `observed` where `expected` holds a set at the same
place (a set that came back from a file as an array is still the same content).
"""
import dataclasses
import json
import math


def _np():
    import numpy
    return numpy


def _sort_key(x):
    return json.dumps(x, sort_keys=True, default=repr)


def _is_empty(c):
    return c is None or (isinstance(c, (list, dict)) and len(c) == 0) or c == {"__map__": []}


def _map(pairs):
    """pairs of (canonical key, canonical value) -> map form; None / empty values are treated like a missing key."""
    items = [[k, v] for k, v in pairs if not _is_empty(v)]
    items.sort(key=lambda kv: _sort_key(kv[0]))
    return {"__map__": items}


def _fields(x):
    """(name, value) pairs of a record-like object, or None."""
    tn = type(x).__name__
    if tn == "Row":
        return list(x.to_dict().items())
    if tn == "CallSite":
        return None
    if dataclasses.is_dataclass(x) and not isinstance(x, type):
        return [(f.name, getattr(x, f.name)) for f in dataclasses.fields(x)]
    return None


def canon(x, _depth=0):
    np = _np()
    if _depth > 40:
        return "<deep>"
    if x is None:
        return None
    if isinstance(x, (bool, np.bool_)):
        return bool(x)
    if isinstance(x, (int, np.integer)):
        return int(x)
    if isinstance(x, (float, np.floating)):
        f = float(x)
        if math.isnan(f):
            return None
        return int(f) if f.is_integer() and abs(f) < 2 ** 53 else f
    if isinstance(x, str):
        return x
    if isinstance(x, bytes):
        return {"__bytes__": x.hex()}
    if isinstance(x, (list, tuple, range)):
        return [canon(v, _depth + 1) for v in x]
    if isinstance(x, np.ndarray):
        return [canon(v, _depth + 1) for v in (x.tolist() if x.dtype != object else x)]
    if isinstance(x, (set, frozenset)):
        return sorted((canon(v, _depth + 1) for v in x), key=_sort_key)
    if isinstance(x, dict):
        return _map((canon(k, _depth + 1), canon(v, _depth + 1)) for k, v in x.items())
    tn = type(x).__name__
    if tn == "DataModel":
        return [canon(r, _depth + 1) for r in x]
    if tn == "SFGNode":
        return {"__sfgnode__": canon(x.to_tuple(), _depth + 1)}
    fs = _fields(x)
    if fs is not None:
        return _map((str(k), canon(v, _depth + 1)) for k, v in fs)
    # graphs
    try:
        import networkx as nx
        if isinstance(x, nx.Graph):
            edges = []
            for u, v, d in x.edges(data=True):
                edges.append([canon(u, _depth + 1), canon(v, _depth + 1), canon(d.get("weight"), _depth + 1)])
            edges.sort(key=_sort_key)
            return {"__graph__": edges}
    except ImportError:
        pass
    if hasattr(x, "graph") and tn in ("CallGraph", "BasicGraph", "ControlFlowGraph", "SymbolGraph", "StateFlowGraph",
                                       "BasicCallGraph", "StateGraph"):
        return canon(x.graph, _depth + 1)
    if tn == "SymbolStateSpace":
        return {"__space__": [canon(e, _depth + 1) for e in x.space]}
    if tn == "BitVectorManager":
        return {"__bvm__": canon(x.bit_pos_to_id, _depth + 1), "counter": canon(x.counter)}
    if tn == "CallSite":
        return {"__callsite__": [canon(x.caller_id), canon(x.call_stmt_id), canon(x.callee_id)]}
    try:
        import pandas as pd
        if x is pd.NA or x is pd.NaT:
            return None
    except ImportError:
        pass
    if hasattr(x, "__dict__"):
        return _map((k, canon(v, _depth + 1)) for k, v in sorted(vars(x).items()) if not k.startswith("_") and not callable(v))
    return repr(x)


def canon_guided(obs, exp, _depth=0):
    """canonical form of `obs`, sorting list-like values where `exp` has a set at the same place."""
    np = _np()
    if _depth > 40:
        return canon(obs)
    if isinstance(exp, (set, frozenset)) and isinstance(obs, (list, tuple, np.ndarray, set, frozenset, range)):
        return sorted((canon(v, _depth + 1) for v in obs), key=_sort_key)
    if isinstance(exp, dict) and isinstance(obs, dict):
        ek = {_sort_key(canon(k)): v for k, v in exp.items()}
        return _map((canon(k), canon_guided(v, ek.get(_sort_key(canon(k))), _depth + 1)) for k, v in obs.items())
    if isinstance(exp, (list, tuple)) and isinstance(obs, (list, tuple, np.ndarray)) and len(exp) == len(obs):
        return [canon_guided(o, e, _depth + 1) for o, e in zip(obs, exp)]
    ef, of = _fields(exp) if exp is not None else None, _fields(obs) if obs is not None else None
    if ef is not None and of is not None:
        ed = dict(ef)
        return _map((str(k), canon_guided(v, ed.get(k), _depth + 1)) for k, v in of)
    tn = type(exp).__name__
    if tn == "SymbolStateSpace" and type(obs).__name__ == "SymbolStateSpace" and len(exp.space) == len(obs.space):
        return {"__space__": [canon_guided(o, e, _depth + 1) for o, e in zip(obs.space, exp.space)]}
    return canon(obs, _depth)


def canon_json(x):
    return json.dumps(canon(x), sort_keys=True, separators=(",", ":"))


def tokens(c, out=None):
    """all 'token-like' leaves of a canonical structure, as strings: ints with |v| >= 1000 and strings containing 'tk'.
    Numeric strings count like their number ('12001' == 12001) because several loaders stringify values."""
    if out is None:
        out = set()
    if isinstance(c, bool) or c is None:
        return out
    if isinstance(c, int):
        if abs(c) >= 1000:
            out.add(str(c))
    elif isinstance(c, float):
        pass
    elif isinstance(c, str):
        cur = ""
        for ch in c + " ":
            if ch.isalnum() or ch == "_" or (ch == "-" and not cur):
                cur += ch
            else:
                if "tk" in cur:
                    out.add(cur.lstrip("-"))
                elif cur.lstrip("-").isdigit() and abs(int(cur)) >= 1000:
                    out.add(str(int(cur)))
                cur = ""
    elif isinstance(c, list):
        for v in c:
            tokens(v, out)
    elif isinstance(c, dict):
        for k, v in c.items():
            tokens(v, out)
    return out
