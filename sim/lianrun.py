"""Running the REAL lian pipeline as a simulated process.

run_forked(): fork from a worker that has already imported lian (0.15-0.4 s per run instead of 2.5 s), pin cwd / umask /
argv / stdio, optionally install the file-system seam, call lian.main.Lian().run(), report an outcome record through a file.
make_settings(): a small --default-settings directory (the stock one costs ~10 s of YAML parsing per run).
"""
import json
import os
import signal
import sys
import time
import traceback

SETTINGS_FILES = {
    # the second rule is restricted to one unit by name, like the stock rules for routes.py / views.py
    "entry.yaml": '- method_list: ["%unit_init"]\n- unit_name: "main_mod.py"\n  method_list: ["helper"]\n',
    # parameters named alpha / beta / req are taint sources: call_stmt source rules never match on the pinned tree, a
    # parameter_decl rule does, so that the taint phase finds flows and writes its report
    "source.yaml": '- lang: python\n  rules:\n    - operation: parameter_decl\n      name: alpha\n    - operation: parameter_decl\n      name: beta\n'
                   '    - operation: parameter_decl\n      name: req\n    - operation: call_stmt\n      name: source\n      tag: ["%target"]\n'
                   '- lang: javascript\n  rules:\n    - operation: call_stmt\n      name: source\n      tag: ["%target"]\n',
    "sink.yaml": '- lang: python\n  rules:\n    - operation: call_stmt\n      name: sink\n      target: [\\%arg0]\n      vuln_type: generic_sink\n'
                 '- lang: javascript\n  rules:\n    - operation: call_stmt\n      name: sink\n      target: [\\%arg0]\n      vuln_type: generic_sink\n',
    "propagation.yaml": '- lang: python\n  rules:\n  - operation: assign_stmt\n    src: operand1\n    dst:\n      - [\\%target]\n'
                        '  - operation: field_read\n    src: receiver\n    dst: [\\%target]\n',
    "icall.yaml": '- lang: javascript\n  method: "then"\n  args: "%arg0"\n',
    "empty_rules.yaml": "[]\n",
}


def make_settings(d):
    os.makedirs(d, exist_ok=True)
    for name, content in SETTINGS_FILES.items():
        with open(os.path.join(d, name), "w") as f:
            f.write(content)
    return d


def import_lian(settings_dir=None):
    """import the whole pipeline in this process (done once per worker)."""
    import builtins
    if not hasattr(builtins, "profile"):
        builtins.profile = lambda f: f
    import warnings
    warnings.simplefilter("ignore")
    import lian.main as M
    from lian.config import config
    if settings_dir:
        config.TAINT_SOURCE_FROM_CODE = os.path.join(settings_dir, "empty_rules.yaml")
        config.TAINT_SINK_FROM_CODE = os.path.join(settings_dir, "empty_rules.yaml")
    return M


def build_argv(spec, settings_dir):
    """spec: sub, lang, force, workspace (str|None), inputs [str], flags [str]"""
    argv = ["lian", spec.get("sub", "lang"), "-l", spec.get("lang", "python")]
    if spec.get("force"):
        argv.append("-f")
    if spec.get("quiet", True):
        argv.append("-q")
    if spec.get("workspace") is not None:
        argv += ["-w", spec["workspace"]]
    if settings_dir and not spec.get("stock_settings"):
        argv += ["--default-settings", settings_dir]
    argv += list(spec.get("flags", []))
    argv += list(spec["inputs"])
    return argv


def _plain(o):
    """numpy scalars and other odd values inside a monitor's report"""
    try:
        import numpy
        if isinstance(o, numpy.integer):
            return int(o)
        if isinstance(o, numpy.floating):
            return float(o)
        if isinstance(o, numpy.ndarray):
            return o.tolist()
    except Exception:  # noqa
        pass
    if isinstance(o, (set, frozenset, tuple)):
        return sorted(o, key=repr)
    return repr(o)


def run_forked(M, argv, cwd, report_path, stdio_path, before_run=None, timeout=120, umask=0o022, env=None, second_argv=None, unset_env=()):
    """-> outcome dict {status, wall, report(optional)}.  before_run(M) runs in the child right before Lian().run()
    and may return a finaliser that produces the JSON-able report."""
    pid = os.fork()
    if pid == 0:
        code = 70
        try:
            os.setsid()
            fd = os.open(stdio_path, os.O_WRONLY | os.O_CREAT | os.O_TRUNC, 0o644)
            os.dup2(fd, 1)
            os.dup2(fd, 2)
            devnull = os.open("/dev/null", os.O_RDONLY)
            os.dup2(devnull, 0)
            sys.stdout = os.fdopen(1, "w", closefd=False)
            sys.stderr = os.fdopen(2, "w", closefd=False)
            os.umask(umask)
            for name_ in unset_env:
                os.environ.pop(name_, None)
            if env:
                os.environ.update(env)
            os.chdir(cwd)
            sys.argv = list(argv)
            sys.dont_write_bytecode = True
            fin = before_run(M) if before_run else None
            status = "ok"
            detail = ""
            tb_text = ""
            try:
                M.Lian().run()
            except SystemExit as e:
                status = f"exit:{e.code}"
            except BaseException as e:  # noqa
                tb = traceback.extract_tb(e.__traceback__)
                frame = next((f for f in reversed(tb) if "/lian/" in f.filename), tb[-1] if tb else None)
                status = f"exc:{type(e).__name__}"
                detail = f"{str(e)[:200]} @ {os.path.basename(frame.filename)}:{frame.name}" if frame else str(e)[:200]
                tb_text = " <- ".join(f"{os.path.basename(f.filename)}:{f.lineno}:{f.name}" for f in reversed(tb[-8:]))
            status2 = None
            if second_argv and status == "ok":
                # a second analysis in the SAME interpreter (what a service or a notebook embedding lian does)
                sys.argv = list(second_argv)
                try:
                    M.Lian().run()
                    status2 = "ok"
                except SystemExit as e:
                    status2 = f"exit:{e.code}"
                except BaseException as e:  # noqa
                    status2 = f"exc:{type(e).__name__}: {str(e)[:160]}"
            try:
                sys.stdout.flush()
                sys.stderr.flush()
            except Exception:  # noqa
                pass
            rep = {"status": status, "detail": detail, "tb": tb_text}
            if status2 is not None:
                rep["status2"] = status2
            os.environ["LIAN_SIM_RUN_STATUS"] = status
            if fin:
                rep["report"] = fin()
            tmp = report_path + ".tmp"
            with open(tmp, "w") as f:
                json.dump(rep, f, default=_plain)
            os.replace(tmp, report_path)
            code = 0
        except BaseException:  # noqa
            try:
                os.write(2, traceback.format_exc().encode())
            except Exception:  # noqa
                pass
            code = 71
        finally:
            os._exit(code)
    # ---- parent
    t0 = time.time()
    deadline = t0 + timeout
    status = None
    while True:
        wpid, st = os.waitpid(pid, os.WNOHANG)
        if wpid == pid:
            status = st
            break
        if time.time() > deadline:
            try:
                os.killpg(pid, signal.SIGKILL)
            except OSError:
                try:
                    os.kill(pid, signal.SIGKILL)
                except OSError:
                    pass
            os.waitpid(pid, 0)
            return {"status": "timeout", "wall": time.time() - t0}
        time.sleep(0.002)
    out = {"wall": time.time() - t0}
    if os.WIFSIGNALED(status):
        out["status"] = f"signal:{os.WTERMSIG(status)}"
    else:
        out["exit_code"] = os.WEXITSTATUS(status)
    if os.path.exists(report_path):
        try:
            rep = json.load(open(report_path))
            out.update(rep)
        except Exception:  # noqa
            out.setdefault("status", "report_unreadable")
    else:
        out.setdefault("status", f"died:{out.get('exit_code')}")
    return out
