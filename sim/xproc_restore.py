"""Read a C15 world-A loader directory in ANOTHER process (fresh interpreter, its own PYTHONHASHSEED):
usage: python -B xproc_restore.py <spec.json>  ->  prints {"<i>": canonical json | "ERR:<type>" | null}
spec: {family, dir, ids (key descriptors), icap, bcap, max_rows}"""
import contextlib
import io
import json
import os
import sys


def main():
    spec = json.load(open(sys.argv[1]))
    here = os.path.dirname(os.path.abspath(__file__))
    sys.path.insert(0, os.path.dirname(here))
    import builtins
    builtins.profile = lambda f: f
    import warnings
    warnings.simplefilter("ignore")
    from checks import c15_families as F
    from sim.canon import canon_json
    F.setup()
    from lian.config import config
    config.MAX_ROWS = spec["max_rows"]
    fam = F.general_families()[spec["family"]]
    out = {}
    buf = io.StringIO()
    with contextlib.redirect_stdout(buf), contextlib.redirect_stderr(buf):
        loader = fam.make(spec["dir"], spec["icap"], spec["bcap"])
        try:
            loader.restore_indexing()
        except BaseException as e:  # noqa
            out["index"] = f"ERR:{type(e).__name__}"
        for i, kd in enumerate(spec["ids"]):
            try:
                res = fam.get(loader, F.key_of(kd))
                out[str(i)] = None if res is None else canon_json(res)
            except BaseException as e:  # noqa
                out[str(i)] = f"ERR:{type(e).__name__}"
    print(json.dumps(out))


if __name__ == "__main__":
    main()
