"""Seeded generator of small Python projects (1..4 modules) whose only purpose is to reach many of the analyser's
set/dict iteration sites: functions with positional/default/keyword/*args/**kwargs parameters, call sites with named and
packed arguments, classes with inheritance, fields and methods, dict/list literals, element and field reads/writes,
closures, globals, imports in several forms, branches, loops, and source()/sink() calls so that the taint phase has work.
There is no oracle attached to the programs themselves; they need not be runnable, only parseable.
"""
import ast

NAMES = ["alpha", "beta", "gamma", "delta", "eps", "zeta", "eta", "theta", "iota", "kappa"]


def _params(rng, n):
    ps = []
    names = rng.sample(NAMES, n)
    for i, nm in enumerate(names):
        if rng.random() < 0.3 and i >= n // 2:
            ps.append(f"{nm}={rng.choice(['1', 'None', repr('d'), '[]', '{}'])}")
        else:
            # positional parameters must precede defaults
            if any("=" in p for p in ps):
                ps.append(f"{nm}=0")
            else:
                ps.append(nm)
    r = rng.random()
    if r < 0.2:
        ps.append("*args")
    if r < 0.1 or 0.2 <= r < 0.3:
        ps.append("**kwargs")
    return names, ps


def _expr(rng, vars_):
    r = rng.random()
    v = rng.choice(vars_) if vars_ else "1"
    if r < 0.2:
        return f"{v} + {rng.choice(vars_) if vars_ else 2}"
    if r < 0.3:
        return "{" + ", ".join(f"{repr(k)}: {rng.choice(vars_) if vars_ else 1}" for k in rng.sample(NAMES, rng.randint(1, 3))) + "}"
    if r < 0.4:
        return "[" + ", ".join(rng.choice(vars_) if vars_ else "0" for _ in range(rng.randint(1, 3))) + "]"
    if r < 0.5:
        return f"{v}.{rng.choice(NAMES)}"
    if r < 0.6:
        return f"{v}[{rng.choice(['0', repr(rng.choice(NAMES))])}]"
    if r < 0.7:
        return "source()"
    if r < 0.8:
        # modulo / string formatting, with and without blanks around the operator
        return rng.choice([f"{v}%{rng.choice(vars_) if vars_ else 'k'}", f"{v} % 3", f"'slot%d' % {v}", f"'%s_{rng.choice(NAMES)}'%{v}"])
    return v


def _call(rng, funcs, vars_):
    if not funcs:
        return f"print({rng.choice(vars_) if vars_ else 1})"
    name, pnames = rng.choice(funcs)
    args = []
    style = rng.random()
    used = []
    for i, p in enumerate(pnames):
        val = rng.choice(vars_) if vars_ and rng.random() < 0.8 else rng.choice(["1", "source()", "None"])
        if style < 0.35 or (style < 0.7 and i >= len(pnames) // 2):
            used.append(f"{p}={val}")      # named argument
        else:
            args.append(val)
    rng.shuffle(used)
    if style > 0.85 and vars_:
        args.append("*" + rng.choice(vars_))
    if style > 0.92 and vars_:
        used.append("**" + rng.choice(vars_))
    return f"{name}({', '.join(args + used)})"


def _body(rng, vars_, funcs, depth, lines, indent):
    pad = "    " * indent
    n = rng.randint(1, 4)
    local = list(vars_)
    for _ in range(n):
        r = rng.random()
        nm = rng.choice(NAMES)
        if r < 0.3:
            lines.append(f"{pad}{nm} = {_expr(rng, local)}")
            local.append(nm)
        elif r < 0.5:
            lines.append(f"{pad}{nm} = {_call(rng, funcs, local)}")
            local.append(nm)
        elif r < 0.6 and local:
            lines.append(f"{pad}{rng.choice(local)}.{rng.choice(NAMES)} = {_expr(rng, local)}")
        elif r < 0.7 and local:
            lines.append(f"{pad}{rng.choice(local)}[{repr(rng.choice(NAMES))}] = {_expr(rng, local)}")
        elif r < 0.8 and depth < 2:
            lines.append(f"{pad}if {rng.choice(local) if local else 'True'}:")
            _body(rng, local, funcs, depth + 1, lines, indent + 1)
            if rng.random() < 0.5:
                lines.append(f"{pad}else:")
                _body(rng, local, funcs, depth + 1, lines, indent + 1)
        elif r < 0.84 and depth < 2:
            lines.append(f"{pad}for {nm} in {rng.choice(local) if local else '[1, 2]'}:")
            _body(rng, local + [nm], funcs, depth + 1, lines, indent + 1)
            if rng.random() < 0.3:
                lines.append(f"{pad}else:")
                _body(rng, local, funcs, depth + 1, lines, indent + 1)
        elif r < 0.88 and depth < 2:
            lines.append(f"{pad}while {rng.choice(local) if local else 'True'}:")
            _body(rng, local, funcs, depth + 1, lines, indent + 1)
            if rng.random() < 0.5:
                lines.append(f"{pad}    break")
            if rng.random() < 0.6:
                lines.append(f"{pad}else:")
                _body(rng, local, funcs, depth + 1, lines, indent + 1)
        elif r < 0.91 and local:
            # calls the mock code models: list.append
            lines.append(f"{pad}{nm} = []")
            lines.append(f"{pad}{nm}.append({rng.choice(local)})")
            local.append(nm)
        elif r < 0.95 and local:
            lines.append(f"{pad}sink({rng.choice(local)})")
        else:
            lines.append(f"{pad}{_call(rng, funcs, local)}")
    return local


def gen_module(rng, mod_name, other_modules, size):
    lines = []
    funcs = []      # (callable name, parameter names)
    for om in other_modules:
        r = rng.random()
        if r < 0.35:
            lines.append(f"import {om}")
        elif r < 0.7:
            lines.append(f"from {om} import {rng.choice(['helper', 'Base', 'CONFIG'])}")
        elif r < 0.85:
            lines.append(f"from {om} import helper as {om}_helper")
            funcs.append((f"{om}_helper", ["alpha", "beta"]))
    lines.append(f"CONFIG = {{'mode': {repr(mod_name)}, 'level': 1}}")
    lines.append("def helper(alpha, beta=2, *args, **kwargs):")
    lines.append("    return alpha")
    funcs.append(("helper", ["alpha", "beta"]))
    lines.append("class Base:")
    lines.append("    kind = 'base'")
    lines.append("    def __init__(self, alpha, beta=None):")
    lines.append("        self.alpha = alpha")
    lines.append("        self.beta = beta")
    lines.append("    def run(self, gamma):")
    lines.append("        return self.alpha")
    for i in range(size):
        r = rng.random()
        if r < 0.5:
            pn, ps = _params(rng, rng.randint(0, 4))
            fname = f"f{i}_{rng.choice(NAMES)}"
            lines.append(f"def {fname}({', '.join(ps)}):")
            if rng.random() < 0.2:
                lines.append(f"    global CONFIG")
            body_vars = _body(rng, pn + ["CONFIG"], funcs, 0, lines, 1)
            if rng.random() < 0.3:
                lines.append(f"    def inner({rng.choice(NAMES)}):")
                lines.append(f"        return {rng.choice(body_vars)}")
                lines.append(f"    return inner")
            else:
                lines.append(f"    return {rng.choice(body_vars)}")
            funcs.append((fname, pn))
        elif r < 0.75:
            cname = f"C{i}{rng.choice(NAMES).capitalize()}"
            base = rng.choice(["", "(Base)", "(Base)"])
            lines.append(f"class {cname}{base}:")
            lines.append(f"    {rng.choice(NAMES)} = {rng.choice(['1', '[]', repr('x')])}")
            for j in range(rng.randint(1, 3)):
                pn, ps = _params(rng, rng.randint(0, 3))
                lines.append(f"    def m{j}_{rng.choice(NAMES)}({', '.join(['self'] + ps)}):")
                vs = _body(rng, pn + ["self"], funcs, 1, lines, 2)
                lines.append(f"        return {rng.choice(vs)}")
            funcs.append((cname, ["alpha", "beta"] if base else []))
        else:
            _body(rng, ["CONFIG"], funcs, 0, lines, 0)
    _body(rng, ["CONFIG"], funcs, 0, lines, 0)
    if rng.random() < 0.5:
        # a taint flow the analysis finds: a parameter that is a source in the small settings reaches sink()
        lines.append(f"def flow_{mod_name}(alpha, beta=None):")
        lines.append("    eta = alpha")
        lines.append("    theta = {'k': eta}")
        lines.append("    sink(eta)" if rng.random() < 0.6 else "    sink(eta, \"\\xc3\\xa9\")")      # an ASCII source whose flow report is not ASCII
        lines.append("    return theta")
        lines.append(f"flow_{mod_name}(1)")
    src = "\n".join(lines) + "\n"
    try:
        ast.parse(src)
    except SyntaxError:
        # keep only the prefix that parses (generator is best effort; programs only need to be parseable)
        good = []
        for ln in lines:
            try:
                ast.parse("\n".join(good + [ln]) + "\n")
                good.append(ln)
            except SyntaxError:
                # may be an incomplete block; try adding a pass
                try:
                    ast.parse("\n".join(good + [ln, "    " * (len(ln) - len(ln.lstrip())) + "    pass"]) + "\n")
                    good.append(ln)
                    good.append(" " * (len(ln) - len(ln.lstrip())) + "    pass")
                except SyntaxError:
                    pass
        src = "\n".join(good) + "\n"
        try:
            ast.parse(src)
        except SyntaxError:
            src = "x = 1\n"
    return src


def gen_project(rng, n_modules, size, shape=None):
    """shape: None (seeded choice) | "ambiguous_import" | "case_collision" | "dotted_import" - the special project shape to add"""
    names = ["main_mod", "util_mod", "model_mod", "svc_mod"][:n_modules]
    files = {}
    for i, nm in enumerate(names):
        others = [o for o in names if o != nm and rng.random() < 0.6]
        path = nm + ".py" if rng.random() < 0.7 or i == 0 else f"pkg/{nm}.py"
        files[path] = gen_module(rng, nm, others, size)
    if rng.random() < 0.12 or shape == "unusual_files":
        # unusual but legal source files
        d = rng.choice(["", "pkg/"])
        files[f"{d}crlf_mod.py"] = "import os\r\nCR = 1\r\ndef crlf(alpha):\r\n    beta = alpha\r\n    return beta\r\n"
        files[f"{d}bom_mod.py"] = "\ufeffBOM = 1\ndef bom(alpha):\n    return alpha\n"
        files[f"{d}empty_mod.py"] = ""
        files[f"{d}nonl_mod.py"] = "NONL = 1\ndef nonl(alpha):\n    return alpha"
        files[f"{d}unicode_mod.py"] = "gr\u00f6\u00dfe = 1\ndef \u540d\u524d(alpha, \u00e9t\u00e9=2):\n    \u03b4 = alpha\n    sink(\u03b4)\n    return \u03b4\n\u540d\u524d(gr\u00f6\u00dfe)\n"
        files[f"{d}tabs_mod.py"] = "def tabs(alpha):\n\tif alpha:\n\t\treturn alpha\n\treturn None\n"
        # a file in a legacy 8-bit encoding (written as cp1251 by the engines that honour the name; plain UTF-8 elsewhere)
        files[f"{d}cp1251_mod.py"] = "# \u043a\u043e\u043c\u043c\u0435\u043d\u0442\u0430\u0440\u0438\u0439\nTEXT = '\u043f\u0440\u0438\u0432\u0435\u0442'\ndef legacy(alpha):\n    return alpha\n"
        files[f"{d}long_mod.py"] = "LONG = [" + ", ".join(str(i) for i in range(400)) + "]\nvv1 = LONG\nunit_init = vv1\n"
    r = rng.random()
    if shape is not None:
        r = {"ambiguous_import": 0.1, "case_collision": 0.3, "dotted_import": 0.5}.get(shape, r)
    if r < 0.25:
        # an ambiguous import: the same module name in two packages, imported non-relatively from a third place
        for pk in ("pkg_a", "pkg_b"):
            files[f"{pk}/helpers.py"] = (f"MARK = {pk!r}\ndef run(alpha, beta=1):\n    gamma = alpha\n    sink(gamma)\n    return {pk!r}\n"
                                         f"def helper(alpha, beta=2):\n    return alpha\n")
        first = sorted(files)[0]
        files[first] = ("from helpers import run\nimport helpers\n" + files[first] +
                        "\ndef go(zeta):\n    eta = run(zeta, beta=source())\n    return helpers.helper(eta)\ngo(source())\n")
    elif r < 0.57 and r >= 0.45:
        # dotted imports (rewritten to flat aliases before parsing), one of them next to a name that already is the flat alias,
        # and two dotted imports that flatten to the same alias
        first = sorted(files)[0]
        files["pkg_d/__init__.py"] = ""
        files["pkg_d/sub_mod.py"] = "def helper(alpha, beta=2):\n    return alpha\n"
        files[first] = ("import os.path\nimport pkg_d.sub_mod\n" + ("import pkg_d_sub.mod\n" if rng.random() < 0.5 else "") +
                        "os_path = 'taken'\n" + files[first] +
                        "\ndef joined(theta):\n    iota = os.path.join(theta, os_path)\n    return pkg_d.sub_mod.helper(iota)\njoined(source())\n")
    elif r < 0.45:
        # sibling units whose names differ only in case, and names that sort differently with and without case folding
        d = rng.choice(["", "pkg/"])
        files[f"{d}Codec.py"] = "def encode(alpha):\n    return alpha\n"
        files[f"{d}codec.py"] = "def decode(beta):\n    sink(beta)\n    return beta\n"
        if rng.random() < 0.5:
            files[f"{d}Zeta.py"] = "ZETA = 1\n"
            files[f"{d}alpha_low.py"] = "ALPHA = source()\n"
    return files
