"""In-vivo monitors: the REAL lian pipeline analyses a small project in a forked process while harness-side monitors
(installed by attribute replacement, no repo change) watch three components under the pipeline's own interleaving:

  C15  every sub-loader's save / get_item_by_id is wrapped by a recording proxy: content is canonicalised at save time,
       every later pipeline read of that id is compared with it (stale-cache clause in vivo; MAX_ROWS and cache capacities
       are shrunk so the miss paths run), and after the final Loader.export() a FRESH Loader restores from the workspace
       and every recorded item is read back through the public getter and compared.
  C17  EventManager.add_handler / notify are wrapped: for each real notification the invoked sequence, the data chaining
       and the combined return value are checked against the fold, using the handlers' ACTUAL returns.
  C19  PathManager.add_path / remove_path / path_exists are wrapped and the real P3 sequence is fed to the set model.

The monitors never raise into the pipeline; they only record.  The report is returned to the parent as JSON.
"""
import contextlib
import io
import os

import json as _json

from sim.canon import canon, canon_guided, canon_json as cjson, tokens

EMPTY_FORMS = {"null", "[]", '{"__map__":[]}', '{"__graph__":[]}', '{"__space__":[]}'}


def same_content(a_json, b_json):
    """equal canonical forms.  (An earlier version also equated the empty forms None / [] / {}; that hid a real defect -
    an item saved without rows came back as a bare list once exported and crashed the pipeline - so it is strict now.)"""
    return a_json == b_json


def key_repr(_id):
    c = canon(_id)
    import json
    return json.dumps(c, sort_keys=True)


def install(M, knobs, report):
    """called in the forked child right before Lian().run(); returns the finaliser."""
    import lian.util.loader as L
    import lian.common_structs as CS
    import lian.events.event_manager as EM
    import lian.events.event_return as er
    from lian.config import config
    from lian.util.data_model import DataModel

    report.update({"c15": [], "c17": [], "c19": [], "stats": {}, "notes": []})
    stats = report["stats"]

    def bump(k, n=1):
        stats[k] = stats.get(k, 0) + n

    # ------------------------------------------------------------------ fault: the k-th feather write of the whole run fails
    fault = knobs.get("fault")
    if fault:
        from sim import diskseam
        diskseam.install()
        diskseam.begin_run()
        diskseam.begin_op([dict(fault)])
        report["fault_planned"] = dict(fault)

    # ------------------------------------------------------------------ knobs: make the miss paths run
    config.MAX_ROWS = knobs.get("max_rows", 400000)
    for name in ("LRU_CACHE_CAPACITY", "BUNDLE_CACHE_CAPACITY", "GIR_CACHE_CAPACITY", "MIN_CACHE_CAPACITY"):
        if name in knobs.get("caps", {}) and hasattr(config, name):
            setattr(config, name, knobs["caps"][name])

    # ------------------------------------------------------------------ C15 monitor
    state = {"loaders": [], "wrap": True, "latest": {}, "hist": {}, "reads": {}}
    orig_loader_init = L.Loader.__init__
    sfg_cls = getattr(L, "StateFlowGraphLoader", ())
    sample_every = knobs.get("sample_every", 7)

    def pure_roundtrip(ref, _id, content):
        flat = ref.flatten_item_when_saving(_id, content)
        return ref.unflatten_item_dataframe_when_loading(_id, DataModel(flat, columns=ref.item_schema))

    def wrap_sub(name, sub):
        try:
            ref = type(sub)(sub.options, sub.item_schema, "/nonexistent/lian-sim-ref", 4, 4)
        except Exception as e:  # noqa
            report["notes"].append(f"no reference instance for {name}: {e!r}")
            return
        orig_save, orig_get = sub.save, sub.get_item_by_id
        is_sfg = isinstance(sub, sfg_cls) if sfg_cls else False

        def save(_id, content, _orig=orig_save):
            exp = None
            try:
                buf = io.StringIO()
                with contextlib.redirect_stdout(buf), contextlib.redirect_stderr(buf):
                    exp = cjson(pure_roundtrip(ref, _id, content))
            except Exception as e:  # noqa
                bump("c15_expected_uncomputable")
            if is_sfg:
                # trigger of the listed known finding (state-flow graphs cannot be serialised) disabled: never auto-export them
                old = config.MAX_ROWS
                config.MAX_ROWS = 10 ** 9
                try:
                    r = _orig(_id, content)
                finally:
                    config.MAX_ROWS = old
            else:
                r = _orig(_id, content)
            k = (name, key_repr(_id))
            state["latest"][k] = (exp, _id)
            state["hist"].setdefault(k, set()).add(exp)
            state["reads"][k] = 0
            bump("c15_saves")
            return r

        def get_item_by_id(_id, _orig=orig_get):
            res = _orig(_id)
            try:
                k = (name, key_repr(_id))
                rec = state["latest"].get(k)
                if rec is not None and rec[0] is not None:
                    n = state["reads"].get(k, 0)
                    state["reads"][k] = n + 1
                    if n < 2 or n % sample_every == 0:
                        bump("c15_reads_checked")
                        got = cjson(res)
                        if not same_content(rec[0], got):
                            cls = "stale_read" if got in state["hist"].get(k, ()) else (
                                "lost_item" if res is None else "corrupt_read")
                            if len(report["c15"]) < 20:
                                report["c15"].append({"cls": cls, "loader": name, "family": type(sub).__name__, "id": k[1],
                                                      "phase": "pipeline_read", "expected": rec[0][:500], "observed": got[:500]})
            except Exception as e:  # noqa
                bump("c15_monitor_errors")
            return res

        sub.save = save
        sub.get_item_by_id = get_item_by_id

    def loader_init(self, options, *a, **kw):
        orig_loader_init(self, options, *a, **kw)
        if not state["wrap"]:
            return
        state["loaders"].append(self)
        for name, sub in list(vars(self).items()):
            if isinstance(sub, L.GeneralLoader):
                wrap_sub(name, sub)
                bump("c15_subloaders_wrapped")

    L.Loader.__init__ = loader_init

    # ------------------------------------------------------------------ C17 monitor
    orig_add_handler = EM.EventManager.add_handler
    orig_notify = EM.EventManager.notify
    stack = []
    ANY = config.ANY_LANG

    def add_handler(self, handler_list, func, langs):
        def recorder(data, _f=func):
            in_obj = data.in_data
            ret = _f(data)
            if stack:
                stack[-1].append((_f, id(in_obj), ret, id(data.out_data)))
            return ret
        recorder._lian_sim_orig = func
        return orig_add_handler(self, handler_list, recorder, langs)

    def notify(self, data):
        stack.append([])
        in0 = id(data.in_data)
        lang0, event0 = data.lang, data.event        # "the event's language": what it was when the event was raised
        try:
            res = orig_notify(self, data)
        finally:
            calls = stack.pop()
        try:
            bump("c17_notifications")
            table = self.event_handlers.get(event0)
            exp = []
            cur_in = in0
            cur_out = in0
            union, nonzero = 0, False
            ci = 0
            ok = True
            why = ""
            if table is not None:
                for langs, h in table:
                    if not (lang0 in langs or ANY in langs):
                        continue
                    f = getattr(h, "_lian_sim_orig", h)
                    if ci >= len(calls):
                        ok, why = False, "handler_skipped"
                        break
                    cf, seen_in, ret, out_after = calls[ci]
                    ci += 1
                    if cf is not f:
                        ok, why = False, "order"
                        break
                    if seen_in != cur_in:
                        ok, why = False, "data_chain"
                        break
                    cur_out = out_after
                    if ret is None:
                        bump("c17_none_returns")
                        # None counts as processed in the implementation; property silent -> follow what was observed
                        cur_in = cur_out
                        continue
                    union |= ret
                    nonzero = nonzero or ret != 0
                    if ret & 2:
                        break
                    if ret != 0:
                        cur_in = cur_out
                if ok and ci != len(calls):
                    ok, why = False, "wrong_handler_ran_or_not_blocked"
            elif calls:
                ok, why = False, "handler_ran_for_unknown_event"
            if ok and (not isinstance(res, int) or (res & union) != union or (res & ~(union | (1 if nonzero else 0)))):
                ok, why = False, "return_flags"
            if calls:
                bump("c17_handlers_invoked", len(calls))
            if len(calls) > 1:
                bump("c17_multi_handler_notifications")
            if not ok and len(report["c17"]) < 20:
                report["c17"].append({"cls": why, "event": int(event0), "lang": str(lang0), "lang_after": str(data.lang), "n_calls": len(calls),
                                      "returns": [repr(c[2]) for c in calls], "result": repr(res)})
        except Exception as e:  # noqa
            bump("c17_monitor_errors")
        return res

    EM.EventManager.add_handler = add_handler
    EM.EventManager.notify = notify

    # ------------------------------------------------------------------ C15, one-to-many map loaders: what is handed to save(key, elements)
    # is readable through the loader's own convert_one_to_many(key) right afterwards
    import inspect

    def wrap_one_to_many(cls):
        orig_save_ = cls.save

        def save_(self, key, content, *a, **kw):
            try:
                expected_ = [getattr(x_, "stmt_id", x_) for x_ in list(content)] if content is not None and not isinstance(content, (str, bytes)) else None
            except Exception:  # noqa
                expected_ = None
            res_ = orig_save_(self, key, content, *a, **kw)
            try:
                if expected_:
                    bump("c15_one_to_many_saves_checked")
                    got_ = self.convert_one_to_many(key)
                    got_ids = [getattr(x_, "stmt_id", x_) for x_ in (list(got_) if got_ is not None else [])]
                    missing_ = [e_ for e_ in expected_ if e_ not in got_ids]
                    if missing_ and len(report["c15"]) < 40:
                        report["c15"].append({"cls": "saved_content_not_readable", "loader": cls.__name__, "family": cls.__name__, "id": "save",
                                              "phase": "save", "expected": cjson(sorted(map(repr, expected_)))[:300],
                                              "observed": cjson(sorted(map(repr, got_ids)))[:300]})
            except Exception:  # noqa
                bump("c15_monitor_errors")
            return res_
        cls.save = save_

    for _n, _cls in inspect.getmembers(L, inspect.isclass):
        if _cls.__module__ == L.__name__ and "save" in vars(_cls) and hasattr(_cls, "convert_one_to_many"):
            try:
                if len(inspect.signature(_cls.save).parameters) == 3:
                    wrap_one_to_many(_cls)
            except (TypeError, ValueError):
                pass

    # ------------------------------------------------------------------ C19 monitor
    from checks.c19 import Model as PathModel
    models = {}
    orig_add, orig_remove = CS.PathManager.add_path, CS.PathManager.remove_path

    def as_tuple(p):
        try:
            return tuple(cs.to_tuple() for cs in p.path)
        except Exception:  # noqa
            return None

    def check_view(self, m, op):
        view = [as_tuple(p) for p in self.paths]
        if len(view) != len(set(view)) or set(view) != m.S:
            if len(report["c19"]) < 20:
                report["c19"].append({"cls": "paths_mismatch", "after": op, "expected": sorted(m.S)[:8], "observed": sorted(set(view))[:8]})

    def add_path(self, new_path):
        res = orig_add(self, new_path)
        try:
            m = models.setdefault(id(self), PathModel())
            t = as_tuple(new_path) if isinstance(new_path, CS.CallPath) else None
            bump("c19_adds")
            if t is not None and len(t) > 0:
                exp, rel = m.add(t)
                bump("c19_rel_" + rel)
                if bool(res) != exp and len(report["c19"]) < 20:
                    report["c19"].append({"cls": "add_return", "path": list(t), "relation": rel, "expected": exp, "observed": bool(res)})
                check_view(self, m, ["add", list(t)])
        except Exception as e:  # noqa
            bump("c19_monitor_errors")
        return res

    def remove_path(self, removed_path):
        res = orig_remove(self, removed_path)
        try:
            m = models.setdefault(id(self), PathModel())
            t = as_tuple(removed_path)
            bump("c19_removes")
            if t is not None:
                exp = m.remove(t)
                if bool(res) != exp and len(report["c19"]) < 20:
                    report["c19"].append({"cls": "remove_return", "path": list(t), "expected": exp, "observed": bool(res)})
                check_view(self, m, ["remove", list(t)])
        except Exception as e:  # noqa
            bump("c19_monitor_errors")
        return res

    CS.PathManager.add_path = add_path
    CS.PathManager.remove_path = remove_path

    # every phase-3 analysis has its own store: what it holds when the analysis object is ready is what was added to it
    # while the object was built (nothing, on the pinned tree), and what the analysis hands to the loader at the end is the
    # store's content according to the model
    try:
        from lian.core import global_semantics as GS
        orig_p3_init = GS.P3GlobalSemanticAnalysis.__init__

        def p3_init(self, *a, **kw):
            adds_before = report["stats"].get("c19_adds", 0)
            orig_p3_init(self, *a, **kw)
            try:
                pm = getattr(self, "path_manager", None)
                if isinstance(pm, CS.PathManager):
                    bump("c19_analyses_started")
                    if report["stats"].get("c19_adds", 0) == adds_before:
                        m = PathModel()
                        view = {as_tuple(p) for p in pm.paths}
                        if view != m.S and len(report["c19"]) < 20:
                            report["c19"].append({"cls": "analysis_store_not_fresh", "after": ["new_analysis", report["stats"]["c19_analyses_started"]],
                                                  "expected": [], "observed": sorted(view)[:8]})
                        models[id(pm)] = m          # also drops the model of a collected store whose id() was reused
                    state["p3_pm"] = pm
            except Exception:  # noqa
                bump("c19_monitor_errors")
        GS.P3GlobalSemanticAnalysis.__init__ = p3_init

        orig_save_cp = L.Loader.save_call_paths_p3

        def save_call_paths_p3(self, paths):
            try:
                pm = state.get("p3_pm")
                if pm is not None and paths is pm.paths:
                    bump("c19_persisted_sets_checked")
                    m = models.get(id(pm)) or PathModel()
                    view = [as_tuple(p) for p in paths]
                    if (len(view) != len(set(view)) or set(view) != m.S) and len(report["c19"]) < 20:
                        report["c19"].append({"cls": "persisted_paths_mismatch", "after": ["save_call_paths_p3"],
                                              "expected": sorted(m.S)[:8], "observed": sorted(set(view))[:8]})
            except Exception:  # noqa
                bump("c19_monitor_errors")
            return orig_save_cp(self, paths)
        L.Loader.save_call_paths_p3 = save_call_paths_p3
    except Exception:  # noqa
        bump("c19_monitor_errors")

    # C19, persisted: the call paths a fresh CallPathLoader reads back from the workspace are the store's content.  Done after
    # EVERY analysis of this interpreter (a second analysis may reuse the workspace of the first).
    def c19_readback():
        try:
            pm = state.get("p3_pm")
            if pm is not None and state["loaders"] and not fault:
                state["c19_readback_done_for"] = pm
                sub = state["loaders"][-1]._global_call_path_loader
                fresh_cp = type(sub)(sub.path)
                buf = io.StringIO()
                with contextlib.redirect_stdout(buf), contextlib.redirect_stderr(buf):
                    try:
                        fresh_cp.restore()                 # what Loader.restore() does, which tolerates a missing file
                    except FileNotFoundError:
                        pass
                view = {as_tuple(p_) for p_ in fresh_cp.all_paths}
                m = models.get(id(pm)) or PathModel()
                bump("c19_readbacks_checked")
                if view != m.S and len(report["c19"]) < 20:
                    report["c19"].append({"cls": "persisted_readback_mismatch", "after": ["export", "fresh CallPathLoader.restore", report["stats"].get("c19_analyses_started", 0)],
                                          "expected": sorted(m.S)[:8], "observed": sorted(view)[:8]})
        except Exception as e:  # noqa
            bump("c19_monitor_errors")
            report["notes"].append(f"c19 readback failed: {e!r}"[:300])

    orig_lian_run = M.Lian.run

    def lian_run(self, *a, **kw):
        res = orig_lian_run(self, *a, **kw)
        c19_readback()               # only reached when the analysis returned normally
        return res
    M.Lian.run = lian_run

    # ------------------------------------------------------------------ finaliser: restore from files with a fresh Loader
    def finalise():
        state["wrap"] = False
        EM.EventManager.notify = orig_notify
        # the restore comparison needs the final Loader.export() of a completed run
        report["stats"]["pipeline_loader_seen"] = int(bool(state["loaders"]))
        if state.get("p3_pm") is not None and state.get("c19_readback_done_for") is not state.get("p3_pm"):
            c19_readback()
        if not state["loaders"] or not knobs.get("check_restore", True) or os.environ.get("LIAN_SIM_RUN_STATUS", "ok") != "ok":
            report["stats"]["restore_skipped"] = 1
            return report
        old = state["loaders"][-1]
        damaged = set()      # base names of files hit by the injected write fault
        if fault:
            from sim import diskseam
            report["fault_fired"] = [list(f) for f in diskseam.STATE["fired"]]
            damaged = {f[1] for f in diskseam.STATE["fired"]}
            diskseam.STATE["plan"] = []

        def at_risk(sub):
            """a sub-loader whose bundle or index file was hit may have lost or damaged items (never silently: see the parent)"""
            if not damaged:
                return False
            for attr in ("bundle_path_summary", "path", "loader_indexing_path", "import_graph_nodes_save_path", "import_deps_save_path"):
                base = getattr(sub, attr, None)
                if isinstance(base, str) and any(d == os.path.basename(base) or d.startswith(os.path.basename(base) + ".") for d in damaged):
                    return True
            return False
        try:
            buf = io.StringIO()
            with contextlib.redirect_stdout(buf), contextlib.redirect_stderr(buf):
                fresh = L.Loader(old.options)
                fresh.restore()
            if buf.getvalue().strip():
                report["notes"].append("restore output: " + buf.getvalue()[-300:])
        except BaseException as e:  # noqa
            report["c15"].append({"cls": "restore_failed", "loader": "Loader", "family": "Loader", "id": "", "phase": "restore",
                                  "expected": "", "observed": f"{type(e).__name__}: {str(e)[:300]}"})
            return report
        mine = []          # (loader attr, key repr, what THIS process read back) for the cross-process comparison
        for (name, kr), (exp, _id) in sorted(state["latest"].items(), key=lambda kv: (kv[0][0], kv[0][1])):
            if exp is None:
                continue
            sub = getattr(fresh, name, None)
            if sub is None:
                continue
            if at_risk(sub):
                bump("c15_restore_skipped_at_risk")
                continue
            bump("c15_restore_checked")
            try:
                buf = io.StringIO()
                with contextlib.redirect_stdout(buf), contextlib.redirect_stderr(buf):
                    got_obj = sub.get_item_by_id(_id)
                got = cjson(got_obj)
                err = None
            except BaseException as e:  # noqa
                got, err = None, f"{type(e).__name__}: {str(e)[:200]}"
            mine.append((name, kr, got if err is None else "ERR:" + err.split(":")[0], type(sub).__name__))
            if not same_content(exp, got) and len(report["c15"]) < 40:
                cls = "restore_failed_read" if err else ("lost_after_restore" if got in ("null", None) else (
                    "stale_after_restore" if got in state["hist"].get((name, kr), ()) else "corrupt_after_restore"))
                report["c15"].append({"cls": cls, "loader": name, "family": type(sub).__name__, "id": kr, "phase": "restore",
                                      "expected": exp[:500], "observed": (err or got or "")[:500]})
        # ---- the same workspace restored by ANOTHER process under another string-hash seed must read back the same
        if knobs.get("xprocess_hashseed") and mine:
            try:
                import subprocess
                import tempfile
                from sim.core import PYTHON, VERIF_DIR, pinned_env
                sample = mine[:: max(1, len(mine) // 120)]
                fd, spec_path = tempfile.mkstemp(prefix="xspec-", suffix=".json", dir=os.path.dirname(old.options.workspace.rstrip("/")) or None)
                with os.fdopen(fd, "w") as f:
                    _json.dump({"workspace": old.options.workspace, "items": [[n, k] for n, k, _, _ in sample]}, f)
                r = subprocess.run([PYTHON, "-B", os.path.join(VERIF_DIR, "sim", "xproc_restore_loader.py"), spec_path],
                                   env=pinned_env(hashseed=str(knobs["xprocess_hashseed"])), capture_output=True, text=True, timeout=300)
                os.remove(spec_path)
                other = _json.loads(r.stdout.strip().splitlines()[-1])
                bump("c15_xprocess_items", len(sample))
                for i, (n, kr, got, fam_name) in enumerate(sample):
                    if other.get(str(i)) != got and len(report["c15"]) < 40:
                        report["c15"].append({"cls": "xprocess_mismatch", "loader": n, "family": fam_name, "id": kr, "phase": "restore_other_process",
                                              "expected": (got or "None")[:400], "observed": (other.get(str(i)) or "None")[:400]})
            except Exception as e:  # noqa
                bump("c15_monitor_errors")
                report["notes"].append(f"cross-process restore failed: {e!r}"[:300])
        # dict-backed loaders: the public containers of the old and the restored loader must agree
        skip = {"path", "schema", "options", "EdgeNodePair"}
        for name, sub in sorted(vars(old).items()):
            if isinstance(sub, L.GeneralLoader) or not name.startswith("_") or not hasattr(sub, "restore") or not hasattr(sub, "export"):
                continue
            fs = getattr(fresh, name, None)
            if fs is None or at_risk(sub):
                continue
            for attr, val in sorted(vars(sub).items()):
                if attr in skip or attr.endswith("_path") or callable(val):
                    continue
                bump("c15_dict_attrs_checked")
                try:
                    a = cjson(val)
                    b = _json.dumps(canon_guided(getattr(fs, attr, None), val), sort_keys=True, separators=(",", ":"))
                except Exception as e:  # noqa
                    bump("c15_monitor_errors")
                    continue
                if not same_content(a, b) and len(report["c15"]) < 40:
                    report["c15"].append({"cls": "dict_restore_mismatch", "loader": name, "family": type(sub).__name__, "id": attr,
                                          "phase": "restore", "expected": a[:400], "observed": b[:400]})
        return report

    return finalise


# ---------------------------------------------------------------------------------------------- driver used by the engines

_CTX = {}


def worker_setup():
    """import the pipeline once per worker and prepare a settings directory + scratch base."""
    if _CTX:
        return _CTX
    from sim import lianrun
    from sim.core import scratch_root
    root = scratch_root()
    settings = lianrun.make_settings(os.path.join(root, f"settings-iv-{os.getpid()}"))
    M = lianrun.import_lian(settings)
    base = os.path.join(root, "ivw%07d" % (os.getpid() % 10 ** 7))
    os.makedirs(base, exist_ok=True)
    _CTX.update({"M": M, "settings": settings, "base": base})
    return _CTX


def gen_invivo_ops(rng, n_modules=None, size=None, p_history=0.35, subs=("run", "run", "semantic")):
    """pure-data description of one in-vivo run: project files + run options + loader knobs."""
    from sim import projgen
    n_modules = n_modules or rng.choice([1, 2, 2, 3])
    size = size or rng.choice([2, 4, 6])
    files = projgen.gen_project(rng, n_modules, size)
    lang = "python"
    if rng.random() < 0.4 or os.environ.get("VERIF_INVIVO_BIG"):
        # files from the repository's own corpora in other languages (the default handler table is per language)
        from sim.core import REPO_DIR
        sub, ext, lang_ = rng.choice([("dataflows/javascript", ".js", "javascript"), ("lang_parser/javascript", ".js", "javascript"),
                                      ("lang_parser/java", ".java", "java"), ("dataflows/java", ".java", "java"),
                                      ("lang_parser/go", ".go", "go"), ("lang_parser/php", ".php", "php"), ("import/js", ".js", "javascript"),
                                      ("lang_parser/typescript", ".ts", "typescript"), ("lang_parser/typescript", ".ts", "typescript"),
                                      # real-world Python (vendored CVE projects) and the test corpora of the Python front-end
                                      ("real_cases", ".py", "python"), ("real_cases", ".py", "python"), ("dataflows/python", ".py", "python"),
                                      ("import/python", ".py", "python"), ("lang_parser/python", ".py", "python"),
                                      ("motivativing_examples", ".py", "python"), ("lang_parser/ruby", ".rb", "ruby"),
                                      ("lang_parser/smali", ".smali", "smali"), ("real_cases", ".java", "java"), ("dataflows/c", ".c", "c")])
        big = bool(os.environ.get("VERIF_INVIVO_BIG"))      # exploration aid (never set by the registered commands): bigger inputs
        if big:
            sub, ext, lang_ = "real_cases", ".py", "python"
        cands = []
        for root, dirs, fns in os.walk(os.path.join(REPO_DIR, "tests", sub)):
            dirs.sort()
            cands += [os.path.join(root, f) for f in sorted(fns) if f.endswith(ext) and os.path.getsize(os.path.join(root, f)) < (30000 if big else 5000)]
        if cands:
            files = {}
            for p in rng.sample(cands, min(len(cands), rng.choice([4, 6, 8]) if big else rng.choice([1, 2, 3]))):
                try:
                    files[os.path.basename(p)] = open(p, encoding="utf-8", errors="replace").read()
                except OSError:
                    pass
            if files:
                lang = lang_
                if lang == "typescript":
                    # object creation, field reads and calls: the P2 events with per-language default handlers
                    files["objs.ts"] = ("class Foo {\n    get(): number {\n        return 1;\n    }\n}\n\nfunction build(v: number) {\n"
                                        "    let f = new Foo(v);\n    return f;\n}\n\nlet r = build(3);\n")
                    if rng.random() < 0.5:
                        files = {"objs.ts": files["objs.ts"]}      # the corpus files often stop the TypeScript front-end early
            else:
                files = projgen.gen_project(rng, 1, 2)
    ops = [{"op": "file", "path": p, "content": files[p]} for p in sorted(files)]
    history = None
    if lang == "python" and rng.random() < p_history:
        # the workspace was used before, for a richer project (imports, calls, classes): whatever the new run does not
        # produce must not be readable from the files afterwards.  The workspace directory may be a link (a common way of
        # putting it on a bigger disk).
        prev = projgen.gen_project(rng, 3, 6)
        history = {"ws": rng.choice(["plain", "symlink", "symlink", "symlink_sub", "symlink_sub", "symlink_parent"]),
                   "linked_subdirs": sorted(rng.sample(["semantic_p1", "semantic_p2", "semantic_p3", "frontend"], rng.randint(1, 3))),
                   "files": [[p_, prev[p_]] for p_ in sorted(prev)],
                   "flags": sorted(set(rng.sample(["--enable-p2", "--graph"], rng.randint(0, 1))))}
        if rng.random() < 0.7:
            # ... and the project under analysis is the same project (same directory, same file names) after an edit that
            # removed code: no imports, no classes, hardly any call left
            ops = [{"op": "file", "path": p_, "content": prev[p_] if rng.random() < 0.25 else
                    rng.choice(["x = 1\n", "def only(alpha):\n    return alpha\n", "VALUE = source()\n"])} for p_ in sorted(prev)]
    ops.append({"op": "run", "lang": lang, "history": history, "plugin": rng.random() < 0.5, "sub": rng.choice(list(subs)),
                "debug": rng.random() < 0.2,           # -d without -q: the debug code paths run (and print) too
                "flags": sorted(set(rng.sample(["--enable-p2", "--nomock", "--graph"], rng.randint(0, 2)))),
                "max_rows": rng.choice([1, 3, 8, 20, 60, 400000]),
                "caps": {"LRU_CACHE_CAPACITY": rng.choice([1, 2, 3, 20]), "BUNDLE_CACHE_CAPACITY": rng.choice([1, 2]),
                         "GIR_CACHE_CAPACITY": rng.choice([1, 2, 1000]), "MIN_CACHE_CAPACITY": 1},
                "sample_every": rng.choice([1, 3, 7]),
                "xprocess_hashseed": rng.randrange(1, 2 ** 31) if rng.random() < 0.5 else 0,
                "fault": ({"kind": rng.choice(["write_enospc", "write_torn"]), "nth": rng.choice([0, 1, 2, 3, 5, 8, 13, 21, 34, 55, 89, 120]),
                           "frac": rng.choice([0.1, 0.5, 0.9])} if rng.random() < 0.25 else None)})
    return ops


def run_ops(ops, timeout=240):
    """execute one in-vivo trace; returns (outcome dict without report, report dict)."""
    import shutil
    from sim import lianrun
    ctx = worker_setup()
    B = os.path.join(ctx["base"], "iv")
    shutil.rmtree(B, ignore_errors=True)
    os.makedirs(B)
    try:
        proj = os.path.join(B, "proj")
        files = [op for op in ops if op["op"] == "file"]
        run = next((op for op in ops if op["op"] == "run"), None)
        if not files or run is None:
            return {"status": "skipped"}, {}
        for op in files:
            fp = os.path.join(proj, op["path"])
            os.makedirs(os.path.dirname(fp), exist_ok=True)
            with open(fp, "w", encoding="utf-8") as f:
                f.write(op["content"])
        knobs = {"max_rows": run.get("max_rows", 400000), "caps": run.get("caps", {}), "sample_every": run.get("sample_every", 7),
                 "xprocess_hashseed": run.get("xprocess_hashseed", 0) if not run.get("fault") else 0, "fault": run.get("fault")}
        extra_flags = []
        if run.get("plugin"):
            # a real plugin file (-e): passive handlers for every event kind, registered AFTER the default table, for single
            # languages and for the any-language marker - the production dispatch must filter them exactly
            pl = os.path.join(B, "probe_plugin.py")
            with open(pl, "w") as f:
                f.write("from lian.events.handler_template import EventHandlerManager\n"
                        "from lian.config.constants import EVENT_KIND\n"
                        "import lian.events.event_return as er\n"
                        "class ProbePlugin(EventHandlerManager):\n"
                        "    def __init__(self, event_manager):\n"
                        "        super().__init__(event_manager)\n"
                        "        for event in sorted(event_manager.event_handlers):\n"
                        "            for langs in (['typescript'], ['javascript'], ['python'], ['java', 'go'], 'php', ['%']):\n"
                        "                event_manager.register(event, self.make(), langs)\n"
                        "    def make(self):\n"
                        "        def passive(data):\n"
                        "            return er.EventHandlerReturnKind.UNPROCESSED\n"
                        "        return passive\n")
            extra_flags = ["-e", pl]
        if run.get("debug"):
            extra_flags = extra_flags + ["-d"]
        argv = lianrun.build_argv({"sub": run.get("sub", "run"), "lang": run.get("lang", "python"), "force": True, "workspace": os.path.join(B, "ws"),
                                   "quiet": not run.get("debug"),
                                   "inputs": [proj], "flags": list(run.get("flags", [])) + extra_flags}, ctx["settings"])

        def before_run(M):
            report = {}
            fin = install(M, knobs, report)
            return fin
        home = os.path.join(B, "home")
        os.makedirs(home, exist_ok=True)
        hist = run.get("history")
        hist_status = None
        if hist:
            # an earlier, unmonitored analysis of another project into the same workspace
            if hist.get("ws") == "symlink":
                os.makedirs(os.path.join(B, "ws"), exist_ok=True)
                os.makedirs(os.path.join(B, "bigdisk", "lian_ws_data"), exist_ok=True)
                os.symlink(os.path.join(B, "bigdisk", "lian_ws_data"), os.path.join(B, "ws", "lian_workspace"))
            elif hist.get("ws") == "symlink_sub":
                # single output directories of the workspace live on another disk
                for i_, d_ in enumerate(hist.get("linked_subdirs") or ["semantic_p3"]):
                    os.makedirs(os.path.join(B, "bigdisk", f"sub{i_}"), exist_ok=True)
                    os.makedirs(os.path.join(B, "ws", "lian_workspace"), exist_ok=True)
                    os.symlink(os.path.join(B, "bigdisk", f"sub{i_}"), os.path.join(B, "ws", "lian_workspace", d_))
            elif hist.get("ws") == "symlink_parent":
                os.makedirs(os.path.join(B, "bigdisk", "wsparent"), exist_ok=True)
                os.symlink(os.path.join(B, "bigdisk", "wsparent"), os.path.join(B, "ws"))
            prev = os.path.join(B, "stage", "proj")          # the same directory name as the project analysed afterwards
            for path_, content in hist.get("files", []):
                fp = os.path.join(prev, path_)
                os.makedirs(os.path.dirname(fp), exist_ok=True)
                with open(fp, "w", encoding="utf-8") as f:
                    f.write(content)
            argv0 = lianrun.build_argv({"sub": "run", "lang": "python", "force": True, "workspace": os.path.join(B, "ws"),
                                        "inputs": [prev], "flags": list(hist.get("flags", []))}, ctx["settings"])
            o0 = lianrun.run_forked(ctx["M"], argv0, B, os.path.join(B, "report0.json"), os.path.join(B, "stdio0.txt"), timeout=timeout,
                                    env={"HOME": home, "MPLCONFIGDIR": os.path.join(home, "mpl")})
            hist_status = o0.get("status")
        argv2 = None
        if run.get("second_analysis"):
            knobs["check_restore"] = False
            if run.get("second_analysis") == "same_ws_cut":
                # the project after an edit removed its calls, analysed in the same interpreter into the SAME workspace (-f)
                proj2 = os.path.join(B, "stage2", "proj")
                for op in files:
                    fp = os.path.join(proj2, op["path"])
                    os.makedirs(os.path.dirname(fp), exist_ok=True)
                    with open(fp, "w", encoding="utf-8") as f:
                        f.write("x = 1\n" if op["path"].endswith(".py") else "")
                ws2, in2 = os.path.join(B, "ws"), proj2
            else:
                # the same project once more, in the same interpreter, into another workspace
                ws2, in2 = os.path.join(B, "ws2"), proj
            argv2 = lianrun.build_argv({"sub": run.get("sub", "run"), "lang": run.get("lang", "python"), "force": True, "quiet": not run.get("debug"),
                                        "workspace": ws2, "inputs": [in2], "flags": list(run.get("flags", [])) + extra_flags},
                                       ctx["settings"])
        out = lianrun.run_forked(ctx["M"], argv, B, os.path.join(B, "report.json"), os.path.join(B, "stdio.txt"),
                                 before_run=before_run, timeout=timeout, second_argv=argv2,
                                 env={"HOME": home, "MPLCONFIGDIR": os.path.join(home, "mpl")})
        rep = out.pop("report", None) or {}
        if out.get("status") == "died:71":
            # the child failed OUTSIDE the analysis (monitor set-up or report writing): a defect of this harness, never a pass
            try:
                tail = open(os.path.join(B, "stdio.txt"), errors="replace").read()[-600:]
            except OSError:
                tail = ""
            raise RuntimeError("in-vivo child failed outside the analysis: " + tail)
        if run.get("debug"):
            rep.setdefault("stats", {})
            rep["stats"]["debug_run"] = 1
        if hist:
            rep.setdefault("stats", {})
            rep["stats"]["history_run_" + str(hist_status)] = 1
            rep["stats"]["history_ws_" + str(hist.get("ws"))] = 1
        out["detail"] = (out.get("detail") or "").replace(B, "<B>")
        try:
            full_ = open(os.path.join(B, "stdio.txt"), errors="replace").read().replace(B, "<B>")
            out["stdio_injected_msgs"] = full_.count("(injected")         # counted on the whole text: debug runs print a lot
            out["stdio"] = full_[-4000:]
        except OSError:
            out["stdio"] = ""
        return out, rep
    finally:
        shutil.rmtree(B, ignore_errors=True)
