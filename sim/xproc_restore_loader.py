"""Restore a finished lian workspace in ANOTHER process (fresh interpreter, its own PYTHONHASHSEED) and read items back:
usage: python -B xproc_restore_loader.py <spec.json>   spec: {workspace, items: [[loader_attr, key_repr_json], ...]}
prints {"<index>": canonical json | "ERR:<type>"}  - compared by the in-vivo monitor with its own in-process restore."""
import contextlib
import io
import json
import os
import sys
import types


def main():
    spec = json.load(open(sys.argv[1]))
    here = os.path.dirname(os.path.abspath(__file__))
    sys.path.insert(0, os.path.dirname(here))
    import builtins
    builtins.profile = lambda f: f
    import warnings
    warnings.simplefilter("ignore")
    from sim.canon import canon_json
    import lian.util.loader as L
    from lian.common_structs import CallSite

    def key_of(kr):
        k = json.loads(kr)
        if isinstance(k, dict) and "__callsite__" in k:
            return CallSite(*k["__callsite__"])
        if isinstance(k, list):
            return tuple(k)
        return k

    out = {}
    buf = io.StringIO()
    with contextlib.redirect_stdout(buf), contextlib.redirect_stderr(buf):
        options = types.SimpleNamespace(workspace=spec["workspace"], debug=False, lang_extensions=[], quiet=True)
        loader = L.Loader(options)
        loader.restore()
        for i, (attr, kr) in enumerate(spec["items"]):
            try:
                sub = getattr(loader, attr)
                out[str(i)] = canon_json(sub.get_item_by_id(key_of(kr)))
            except BaseException as e:  # noqa
                out[str(i)] = f"ERR:{type(e).__name__}"
    print(json.dumps(out))


if __name__ == "__main__":
    main()
