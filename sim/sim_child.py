"""One simulated lian process in a FRESH interpreter (PYTHONHASHSEED is fixed at start-up, so C14 cannot fork).

usage: python -B sim_child.py <trial.json> <out.json>
trial: {argv, cwd, dirent, heap_pad, settings, stock_settings, ws (real workspace dir to digest), crash_at (optional),
        mask: [[path, token], ...]}
The child pins cwd/umask/locale, applies the perturbations, runs the REAL lian.main.Lian().run(), and writes an outcome
record: exit status, exception type + innermost lian frame, masked stdout digest, per-file raw and decoded digests.
"""
import hashlib
import json
import os
import random
import sys
import traceback


def main():
    trial = json.load(open(sys.argv[1]))
    out_path = sys.argv[2]
    here = os.path.dirname(os.path.abspath(__file__))
    verif = os.path.dirname(here)
    if verif not in sys.path:
        sys.path.insert(0, verif)
    import builtins
    builtins.profile = lambda f: f
    import warnings
    warnings.simplefilter("ignore")
    os.umask(0o022)
    sys.dont_write_bytecode = True

    # ---- heap layout perturbation: seeded pad of dummy allocations BEFORE lian is imported (ids of later objects shift)
    pad = []
    k = int(trial.get("heap_pad", 0))
    if k:
        r = random.Random(k)
        for i in range(k):
            pad.append(object() if r.random() < 0.5 else [None] * r.randint(1, 40))

    # ---- umask / standard input of the analysing process
    tenv = trial.get("env") or {}
    if tenv.get("_umask"):
        os.umask(int(tenv["_umask"], 8))
    if tenv.get("_close_stdin"):
        try:
            os.close(0)
        except OSError:
            pass

    # ---- what is installed / how big the machine is
    if tenv.get("_hide_modules"):
        for name_ in tenv["_hide_modules"].split(","):
            sys.modules[name_.strip()] = None          # `import name` raises ImportError, as on a machine without the package
    if tenv.get("_small_machine"):
        real_sysconf = os.sysconf

        def small_sysconf(name):
            if name in ("SC_AVPHYS_PAGES", "SC_PHYS_PAGES") or name in (os.sysconf_names.get("SC_AVPHYS_PAGES"), os.sysconf_names.get("SC_PHYS_PAGES")):
                return 8192                                  # 32 MiB of 4 KiB pages
            if name in ("SC_NPROCESSORS_ONLN", "SC_NPROCESSORS_CONF") or name in (os.sysconf_names.get("SC_NPROCESSORS_ONLN"), os.sysconf_names.get("SC_NPROCESSORS_CONF")):
                return 1
            return real_sysconf(name)
        os.sysconf = small_sysconf
        os.cpu_count = lambda: 1
        if hasattr(os, "sched_getaffinity"):
            os.sched_getaffinity = lambda pid=0: {0}
        try:
            import resource
            resource.setrlimit(resource.RLIMIT_NOFILE, (256, resource.getrlimit(resource.RLIMIT_NOFILE)[1]))
        except Exception:  # noqa
            pass

    # ---- the clock seam: every clock function of the time module answers from a simulated clock owned by the trial
    clock = trial.get("clock", "natural")
    if clock != "natural":
        _patch_clock(clock)

    # ---- directory-entry order perturbation
    mode = trial.get("dirent", "natural")
    if mode != "natural":
        _patch_dirent(mode)

    from sim import lianrun
    M = lianrun.import_lian(None if trial.get("stock_settings") else trial["settings"])
    os.chdir(trial["cwd"])
    sys.argv = list(trial["argv"])
    stdio_path = out_path + ".stdio"
    fd = os.open(stdio_path, os.O_WRONLY | os.O_CREAT | os.O_TRUNC, 0o644)
    saved = os.dup(1), os.dup(2)
    os.dup2(fd, 1)
    os.dup2(fd, 2)
    if (trial.get("env") or {}).get("_stdout") == "closed_pipe":
        # lian ... | head -1 : standard output is a pipe whose reader has gone away (standard error still goes to the file)
        pr, pw = os.pipe()
        os.close(pr)
        os.dup2(pw, 1)
        os.close(pw)
    # the console streams keep the encoding and error policy the interpreter chose at start-up (locale, PYTHONIOENCODING)
    sys.stdout = os.fdopen(1, "w", closefd=False, encoding=sys.__stdout__.encoding or "utf-8", errors=sys.__stdout__.errors or "strict")
    sys.stderr = os.fdopen(2, "w", closefd=False, encoding=sys.__stderr__.encoding or "utf-8", errors=sys.__stderr__.errors or "backslashreplace")

    if trial.get("crash_at"):
        # "another project analysed before and crashed": die at the k-th mutating file-system event
        n = [0]
        target = int(trial["crash_at"])

        def hook(event, args):
            if event in ("os.mkdir", "os.remove", "os.rmdir", "shutil.copyfile", "shutil.rmtree", "os.rename") or \
                    (event == "open" and not isinstance(args[0], int) and args[2] is not None and (args[2] & (os.O_WRONLY | os.O_RDWR | os.O_CREAT))):
                n[0] += 1
                if n[0] >= target:
                    os._exit(77)
        sys.addaudithook(hook)

    if trial.get("sched_fds"):
        # concurrent pair: park before every mutating file-system event until the scheduler says go
        ready_w, go_r = trial["sched_fds"]

        def park(event, args):
            if event in ("os.mkdir", "os.remove", "os.rmdir", "shutil.copyfile", "shutil.rmtree", "os.rename", "os.symlink", "os.chmod") or \
                    (event == "open" and not isinstance(args[0], int) and args[2] is not None and (args[2] & (os.O_WRONLY | os.O_RDWR | os.O_CREAT))):
                try:
                    os.write(ready_w, b"r")
                    os.read(go_r, 1)
                except OSError:
                    pass
        sys.addaudithook(park)

    status, detail = "ok", ""
    try:
        M.Lian().run()
    except SystemExit as e:
        status = f"exit:{e.code}"
    except BaseException as e:  # noqa
        tb = traceback.extract_tb(e.__traceback__)
        frame = next((f for f in reversed(tb) if "/lian/" in f.filename), tb[-1] if tb else None)
        status = f"exc:{type(e).__name__}"
        detail = f"{str(e)[:160]} @ {os.path.basename(frame.filename)}:{frame.name}" if frame else str(e)[:160]
    try:
        sys.stdout.flush()
        sys.stderr.flush()
    except Exception:  # noqa
        pass
    os.dup2(saved[0], 1)
    os.dup2(saved[1], 2)

    if trial.get("sched_fds"):
        # the analysis is over: tell the scheduler this process is gone (what follows is the harness's own bookkeeping)
        for fd_ in trial["sched_fds"]:
            try:
                os.close(fd_)
            except OSError:
                pass

    masks = [(a, b) for a, b in trial.get("mask", [])]

    def mask(s):
        for a, b in masks:
            s = s.replace(a, b)
        return s

    stdio = mask(open(stdio_path, errors="replace").read())
    files = digest_workspace(trial["ws"], mask)
    rec = {"status": status, "detail": mask(detail), "stdio_sha": hashlib.sha256(stdio.encode()).hexdigest(), "stdio_tail": stdio[-600:],
           "stdio_len": len(stdio), "files": files}
    cs = getattr(_patch_clock, "state", None)
    if cs is not None:
        rec["clock"] = {"reads": cs["calls"], "simulated_seconds": cs["now"]}
    with open(out_path + ".tmp", "w") as f:
        json.dump(rec, f)
    os.replace(out_path + ".tmp", out_path)
    del pad


def digest_workspace(ws, mask):
    """{relative path: [raw sha256, decoded sha256, size, rows]} for every regular file below ws."""
    from sim.canon import canon
    import pandas as pd
    out = {}
    if not os.path.isdir(ws):
        return out
    for root, dirs, files in os.walk(ws):
        dirs.sort()
        for fn in sorted(files):
            p = os.path.join(root, fn)
            rel = os.path.relpath(p, ws)
            try:
                data = open(p, "rb").read()
            except OSError:
                continue
            raw = hashlib.sha256(data).hexdigest()
            decoded, rows = raw, -1
            top = rel.split(os.sep)[0]
            if top not in ("src", "externs") and len(data) > 0:
                try:
                    df = pd.read_feather(p)
                    rows = len(df)
                    h = hashlib.sha256()
                    h.update(json.dumps([str(c) for c in df.columns]).encode())
                    for rec in df.itertuples(index=False, name=None):
                        h.update(mask(json.dumps(canon(list(rec)), sort_keys=True, default=repr)).encode())
                    decoded = h.hexdigest()
                except Exception:  # noqa  not a feather file: text (dot, json, ...) or undecodable -> masked text / bytes
                    try:
                        decoded = hashlib.sha256(mask(data.decode("utf-8")).encode()).hexdigest()
                    except UnicodeDecodeError:
                        decoded = raw
            out[rel] = [raw, decoded, len(data), rows]
    return out


def _patch_clock(mode):
    """simulated time for the analysing process.  mode: "frozen" (time stands still), "jump:<seconds>" (every look at any
    clock advances it by that much: a machine so slow, or a project so big, that hours pass between two steps),
    "step:<seconds>" (same, small steps).  Wall clock and monotonic clock share one simulated time line that starts at
    a fixed epoch, so nothing of the real time leaks into the run."""
    import time as _time
    step = 0.0
    if ":" in mode:
        step = float(mode.split(":", 1)[1])
    state = {"now": 0.0, "calls": 0}
    EPOCH = 1_700_000_000.0

    def tick():
        state["calls"] += 1
        state["now"] += step
        return state["now"]

    _time.time = lambda: EPOCH + tick()
    _time.monotonic = lambda: 1000.0 + tick()
    _time.perf_counter = lambda: 1000.0 + tick()
    _time.process_time = lambda: 1.0 + tick()
    _time.time_ns = lambda: int((EPOCH + tick()) * 1e9)
    _time.monotonic_ns = lambda: int((1000.0 + tick()) * 1e9)
    _time.perf_counter_ns = lambda: int((1000.0 + tick()) * 1e9)
    _time.sleep = lambda seconds=0: state.__setitem__("now", state["now"] + max(0.0, float(seconds or 0)))      # sleeping costs no real time
    _patch_clock.state = state


def _patch_dirent(mode):
    orig_scandir, orig_listdir = os.scandir, os.listdir

    def order(names):
        names = sorted(names)
        if mode == "sorted":
            return names
        if mode == "reversed":
            return names[::-1]
        seed = mode.split(":", 1)[1] if ":" in mode else "0"
        r = random.Random(seed + "|" + "|".join(str(n) for n in names))
        names = list(names)
        r.shuffle(names)
        return names

    class ScandirIt:
        def __init__(self, entries):
            self._it = iter(entries)

        def __iter__(self):
            return self

        def __next__(self):
            return next(self._it)

        def __enter__(self):
            return self

        def __exit__(self, *a):
            return False

        def close(self):
            pass

    def scandir(path="."):
        with orig_scandir(path) as it:
            entries = list(it)
        by_name = {e.name: e for e in entries}
        return ScandirIt([by_name[n] for n in order(list(by_name))])

    def listdir(path="."):
        return order(orig_listdir(path))

    os.scandir = scandir
    os.listdir = listdir


if __name__ == "__main__":
    main()
